(* C11 — listby/unlist, groupby/ungroup, pivot/unpivot are lossless regroupings.
   Property theorems only; each is closed by a lemma of proofs/P_group.v (which builds on the C07 development).
   ks is the list of the rows' keys (any values); listby_groups ks is the model of dictable._listby: the (key, row indices) groups
   that listby / groupby / xyz turn into rows, sub-tables and pivot cells.  Every statement is for ALL tables / key lists.
   eq_cmp_compat ks (python's == on the keys present coincides with cmp = 0) is the precondition under which "distinct key" has
   one meaning; it holds for NaN-free scalar keys and when the NaN cells of a key column are one object (see C11_example). *)
From Coq Require Import ZArith List Bool Lia Permutation Sorted.
From PB Require Import model.M_sort model.M_group proofs.P_sort proofs.P_group.
Import ListNotations.
Open Scope Z_scope.

(* exactly one group per distinct key: the groups' keys are strictly increasing under cmp (so pairwise different), no group is
   empty, every row index in a group is a row whose key compares 0 with the group's key, and a group lists its rows in
   original order *)
Theorem C11_listby_one_row_per_key ks : eq_cmp_compat ks ->
  StronglySorted (fun a b => cmp a b < 0) (map fst (listby_groups ks)) /\
  Forall (fun g => snd g <> [] /\ (forall i, In i (snd g) -> (i < length ks)%nat /\ cmp (nth i ks VNone) (fst g) = 0) /\
                   StronglySorted (fun i j => (i < j)%nat) (snd g)) (listby_groups ks).
Proof.
  intros H. destruct (listby_groups_one_per_key ks H) as [A B]. split; [exact A|].
  pose proof (listby_groups_original_order ks H) as C. rewrite Forall_forall in *. intros g Hg.
  destruct (B g Hg) as [B1 B2]. split; [exact B1|]. split; [exact B2 | exact (C g Hg)].
Qed.
Print Assumptions C11_listby_one_row_per_key.

(* the precondition of C11_listby_one_row_per_key holds for every table whose key cells are NaN-free scalars
   (None, ints, floats, strings, datetimes): there python's == on key tuples and cmp = 0 are the same relation *)
Theorem C11_scalar_keys_compat ks : Forall (fun k => exists l, k = VTuple l /\ Forall scalar_nf l) ks -> eq_cmp_compat ks.
Proof. exact (scalar_keys_compat ks). Qed.
Print Assumptions C11_scalar_keys_compat.

(* unlist(listby): the groups, read in order, list the row indices in exactly the order of the stable sort by the keys
   (dsort_idx is dictable.sort's index list, C07_dsort_stable), for ANY keys.
   _partial: the statement is on row indices; that unlist spreads the list cells back into these rows (the dictable
   construction / concat plumbing) is tied to the code by the correspondence, not proved. *)
Theorem C11_unlist_listby_partial ks :
  flat_map snd (listby_groups ks) = dsort_idx ks /\
  Permutation (dsort_idx ks) (seq 0 (length ks)) /\ StronglySorted (key_lt ks) (dsort_idx ks).
Proof. split; [exact (listby_groups_flat ks) | exact (dsort_idx_stable ks)]. Qed.
Print Assumptions C11_unlist_listby_partial.

(* groupby: the sub-tables' sizes add up to len(d), one sub-table per key row; hypothesis = the keys are a proper subset of the columns *)
Theorem C11_groupby_sizes_sum by_ t kt subs : nonkey (all_if_none by_ t) t <> [] -> groupby by_ t = Some (kt, subs) ->
  fold_right (fun s n => (nrows s + n)%nat) 0%nat subs = nrows t /\ length (match kt with [] => [] | cv :: _ => snd cv end) = length subs.
Proof. exact (groupby_sizes_sum by_ t kt subs). Qed.
Print Assumptions C11_groupby_sizes_sum.

(* ungroup(groupby): the groups hold every row index exactly once (a permutation of 0..n-1), for ANY keys.
   _partial: on row indices; the re-assembly of the rows from sub-tables and key cells is covered by the correspondence. *)
Theorem C11_ungroup_groupby_partial ks : Permutation (flat_map snd (listby_groups ks)) (seq 0 (length ks)) /\
  fold_right (fun g s => (length (snd g) + s)%nat) 0%nat (listby_groups ks) = length ks.
Proof. split; [exact (listby_groups_perm ks) | exact (listby_groups_sizes ks)]. Qed.
Print Assumptions C11_ungroup_groupby_partial.

(* the hypotheses are satisfiable on a non-trivial table (mixed types, 1 vs 1.0, a shared NaN), and the model computes what the code does *)
Example C11_example :
  let t : table := [([97%N], [VNum false 2; VStr [120%N]; VNum true 2; VNone; VStr [120%N]; VNaN 0; VNaN 0]);
                    ([98%N], [VNum false 2; VNum false 4; VNum false 6; VNum false 8; VNum false 10; VNum false 12; VNum false 14])] in
  eq_cmp_compat (keys_of [[97%N]] t) /\ nonkey [[97%N]] t <> [] /\
  listby [[97%N]] t = [([97%N], [VNone; VNum true 2; VNaN 0; VStr [120%N]]);
                      ([98%N], [VList [VNum false 8]; VList [VNum false 2; VNum false 6]; VList [VNum false 12; VNum false 14]; VList [VNum false 4; VNum false 10]])] /\
  unlist (listby [[97%N]] t) = [([97%N], [VNone; VNum true 2; VNum true 2; VNaN 0; VNaN 0; VStr [120%N]; VStr [120%N]]);
                               ([98%N], [VNum false 8; VNum false 2; VNum false 6; VNum false 12; VNum false 14; VNum false 4; VNum false 10])].
Proof.
  cbv zeta. split; [|split; [vm_compute; congruence | split; vm_compute; reflexivity]].
  intros a b Ha Hb. vm_compute in Ha, Hb.
  repeat (destruct Ha as [<-|Ha]; [repeat (destruct Hb as [<-|Hb]; [vm_compute; split; congruence|]); destruct Hb|]); destruct Ha.
Qed.
