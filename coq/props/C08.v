(* C08 — timeseries operators equal the pointwise operation on aligned operands.
   Property theorems only; each is closed by a lemma of proofs/P_tsops.v (built on proofs/P_align.v).
   opc : cell -> cell -> cell is arbitrary (cell = option Z, None = NaN): every statement holds for every
   cell operation; add_/sub_/mul_/div_/pow_/comparisons are the instances cell_op of model/M_tsops.v.
   Series / scalar operands and pairs of proper (multi-column) DataFrames are treated at full strength, including
   presync's per-column dispatch and the assembly of the per-column results into the result frame (theorems C08_frame_index, _pointwise, _comm).
   Mixed operands (DataFrame x Series / scalar / single-column frame) are covered by C08_mixed_operands, the branch
   without any proper frame by C08_single_column_branch, min_ / max_ on DataFrames by C08_min_max_frames. *)
From Coq Require Import ZArith List Bool Lia.
From PB Require Import model.M_align model.M_tsops proofs.P_align proofs.P_tsops.
Import ListNotations.
Open Scope Z_scope.

(* result index = intersection (inner) / union (outer) / first / last of the operand indices *)
Theorem C08_index opc h m ch d a b P s :
  join_index h [index_of a; index_of b] = Some P -> binop opc h m ch d (OS a) (OS b) = OS s ->
  index_of s = P /\
  match h with
  | HI => forall t, In t P <-> In t (index_of a) /\ In t (index_of b)
  | HO => forall t, In t P <-> In t (index_of a) \/ In t (index_of b)
  | HL => P = index_of a
  | HR => P = index_of b
  | HX x => P = x
  end.
Proof.
  intros HP H. split; [exact (binop_series_index opc h m ch d a b P s HP H)|].
  pose proof (join_index_spec h _ P HP) as S. destruct h.
  - intros t. rewrite S. split.
    + intros Q. split; apply Q; simpl; auto.
    + intros [Qa Qb] i [<-|[<-|[]]]; assumption.
  - intros t. rewrite S. split.
    + intros [i [[<-|[<-|[]]] Q]]; auto.
    + intros [Q|Q]; [exists (index_of a) | exists (index_of b)]; simpl; auto.
  - destruct S as [rest E]. inversion E. reflexivity.
  - destruct S as [front E]. destruct front as [|x [|y [|z f]]]; inversion E; try reflexivity.
    all: try (destruct f; discriminate).
  - exact S.
Qed.
Print Assumptions C08_index.

(* result[t] = opc a[t] b[t] on the aligned operands; an absent operand counts as NaN *)
Theorem C08_pointwise opc h m ch d a b P t :
  join_index h [index_of a; index_of b] = Some P -> In t P ->
  (exists s, binop opc h m ch d (OS a) (OS b) = OS s /\ lookup t s = Some (opc (val_at m a t) (val_at m b t))) /\
  (forall v, lookup t a = Some v -> val_at MNone a t = v) /\
  (~ In t (index_of a) -> val_at MNone a t = None) /\
  ((forall x y, x = None \/ y = None -> opc x y = None) -> m = MNone ->
     ~ In t (index_of a) \/ ~ In t (index_of b) ->
     exists s, binop opc h m ch d (OS a) (OS b) = OS s /\ lookup t s = Some None).
Proof.
  intros HP Ht. pose proof (binop_series_pointwise opc h m ch d a b P t HP Ht) as Q.
  assert (A : forall (s0 : gts cell), ~ In t (index_of s0) -> val_at MNone s0 t = None).
  { intros s0 H0. unfold val_at, at_. apply (lookup_none None is_nan) in H0. unfold cell in *. rewrite H0. reflexivity. }
  split; [exact Q|]. split; [intros v Hv; unfold val_at, at_; unfold cell in *; rewrite Hv; reflexivity|]. split; [apply A|].
  intros Hstrict -> Habs. destruct Q as [s [Hs Hl]]. exists s. split; [exact Hs|]. rewrite Hl. f_equal.
  apply Hstrict. destruct Habs as [H0|H0]; [left | right]; apply A; exact H0.
Qed.
Print Assumptions C08_pointwise.

(* scalars broadcast; the series keeps its own index *)
Theorem C08_scalar_broadcast opc h ch d a c c' : (forall x, h <> HX x) -> sorted (index_of a) ->
  binop opc h MNone ch d (OS a) (ON c) = OS (map (fun p => (fst p, opc (snd p) c)) a) /\
  binop opc h MNone ch d (ON c) (OS a) = OS (map (fun p => (fst p, opc c (snd p))) a) /\
  binop opc h MNone ch d (ON c) (ON c') = ON (opc c c') /\
  (forall m, binop opc h m ch d (OS a) (ON c) = OS (map (fun t => (t, opc (val_at m a t) c)) (index_of a))).
Proof.
  intros Hh Hs. destruct (binop_scalar_cells opc h ch d a c Hh Hs) as [A B].
  split; [exact A|]. split; [exact B|]. split; [apply binop_scalar_scalar|]. intros m. apply binop_scalar_right. exact Hh.
Qed.
Print Assumptions C08_scalar_broadcast.

(* add_ / mul_ on lists reduce left to right; sub_ / div_ first reduce their list operands with add_ / mul_ *)
Theorem C08_list_reduces_left :
  (forall opc h m ch d x xs y,
     reduce opc h m ch d ((x :: xs) ++ [y]) =
       match reduce opc h m ch d (x :: xs) with Some r => Some (binop opc h m ch d r y) | None => None end) /\
  (forall opc h m ch d x y, reduce opc h m ch d [x; y] = Some (binop opc h m ch d x y)) /\
  (forall h m ch a b, ts_op OpAdd h m ch a b = reduce addc h m ch (Some 0) (as_list a ++ as_list b)) /\
  (forall h m ch a b, ts_op OpMul h m ch a b = reduce mulc h m ch (Some 1) (as_list a ++ as_list b)) /\
  (forall h m ch l y, ts_op OpSub h m ch (Many l) (One y) =
     match reduce addc h m ch (Some 0) l with Some x => Some (binop subc h m ch (Some 0) x y) | None => None end) /\
  (forall h m ch l y, ts_op OpDiv h m ch (Many l) (One y) =
     match reduce mulc h m ch (Some 1) l with Some x => Some (binop divc h m ch (Some 1) x y) | None => None end).
Proof.
  repeat split; try reflexivity.
  intros opc h m ch d x xs y. apply reduce_snoc.
Qed.
Print Assumptions C08_list_reduces_left.

(* Whole DataFrames (two proper, multi-column frames).  presync's column dispatch (_df_column) and _convert are
   modelled by presync_calls / assemble; binop_frames proves the result is the frame whose cell (t, x) is
   opc (operand cell of a) (operand cell of b), where the operand cell fcell is the frame's aligned cell if the
   frame has column x and the kernel's default scalar otherwise.  No common column: the (documented) empty result. *)
Theorem C08_frame_index opc h m ch d ca ra cb rb P C : multi ca = true -> multi cb = true -> (forall x, ch <> HX x) ->
  join_index h [index_of ra; index_of rb] = Some P -> join_index ch [ca; cb] = Some C ->
  (C = [] -> binop opc h m ch d (OF ca ra) (OF cb rb) = OS []) /\
  (C <> [] -> exists rows, binop opc h m ch d (OF ca ra) (OF cb rb) = OF C rows /\ index_of rows = P) /\
  match ch with
  | HI => forall x, In x C <-> In x ca /\ In x cb
  | HO => forall x, In x C <-> In x ca \/ In x cb
  | HL => C = ca
  | HR => C = cb
  | HX _ => True
  end.
Proof.
  intros Ha Hb Hch HP HC. rewrite (binop_frames opc h m ch d ca ra cb rb P C Ha Hb Hch HP HC).
  split; [intros ->; reflexivity|]. split; [apply frame_result_shape|].
  pose proof (join_index_spec ch _ C HC) as S. destruct ch; try exact I.
  - intros x. rewrite S. split.
    + intros Q. split; apply Q; simpl; auto.
    + intros [Qa Qb] i [<-|[<-|[]]]; assumption.
  - intros x. rewrite S. split.
    + intros [i [[<-|[<-|[]]] Q]]; auto.
    + intros [Q|Q]; [exists ca | exists cb]; simpl; auto.
  - destruct S as [rest E]. inversion E. reflexivity.
  - simpl in HC. inversion HC. reflexivity.
Qed.
Print Assumptions C08_frame_index.

Theorem C08_frame_pointwise opc h m ch d ca ra cb rb P C t x : multi ca = true -> multi cb = true -> (forall x, ch <> HX x) ->
  join_index h [index_of ra; index_of rb] = Some P -> join_index ch [ca; cb] = Some C -> In t P -> In x C ->
  frame_cell (binop opc h m ch d (OF ca ra) (OF cb rb)) t x = opc (fcell m d ca ra x t) (fcell m d cb rb x t) /\
  (In x ca -> fcell MNone d ca ra x t = match lookup t ra with Some row => row_get ca row x | None => None end) /\
  (~ In x ca -> fcell m d ca ra x t = d).
Proof.
  intros Ha Hb Hch HP HC Ht Hx. rewrite (binop_frames opc h m ch d ca ra cb rb P C Ha Hb Hch HP HC).
  split; [apply frame_result_cell; assumption|]. split; [apply fcell_none | apply fcell_missing].
Qed.
Print Assumptions C08_frame_pointwise.

(* column policy 'oj': the result has the union of the column sets, and in a column that one side lacks every cell is
   opc applied with that side replaced by the kernel's default - so, the default being neutral for opc
   (C08_defaults_are_neutral), the other side's aligned cell unchanged.  Under 'ij': the intersection (C08_frame_index). *)
Theorem C08_oj_neutral_column opc h m d ca ra cb rb P C t x : multi ca = true -> multi cb = true ->
  join_index h [index_of ra; index_of rb] = Some P -> join_index HO [ca; cb] = Some C -> In t P ->
  (forall y, In y C <-> In y ca \/ In y cb) /\
  (In x ca -> ~ In x cb ->
     frame_cell (binop opc h m HO d (OF ca ra) (OF cb rb)) t x = opc (fcell m d ca ra x t) d /\
     ((forall v, opc v d = v) -> frame_cell (binop opc h m HO d (OF ca ra) (OF cb rb)) t x = fcell m d ca ra x t)) /\
  (~ In x ca -> In x cb ->
     frame_cell (binop opc h m HO d (OF ca ra) (OF cb rb)) t x = opc d (fcell m d cb rb x t) /\
     ((forall v, opc d v = v) -> frame_cell (binop opc h m HO d (OF ca ra) (OF cb rb)) t x = fcell m d cb rb x t)).
Proof.
  intros Ha Hb HP HC Ht.
  assert (Hch : forall y, HO <> HX y) by (intros y; discriminate).
  destruct (C08_frame_index opc h m HO d ca ra cb rb P C Ha Hb Hch HP HC) as [_ [_ HU]].
  split; [exact HU|]. split.
  - intros Hxa Hxb.
    destruct (C08_frame_pointwise opc h m HO d ca ra cb rb P C t x Ha Hb Hch HP HC Ht (proj2 (HU x) (or_introl Hxa))) as [E _].
    rewrite E, (fcell_missing m d cb rb x t Hxb). split; [reflexivity | intros Hn; apply Hn].
  - intros Hxa Hxb.
    destruct (C08_frame_pointwise opc h m HO d ca ra cb rb P C t x Ha Hb Hch HP HC Ht (proj2 (HU x) (or_intror Hxb))) as [E _].
    rewrite E, (fcell_missing m d ca ra x t Hxa). split; [reflexivity | intros Hn; apply Hn].
Qed.
Print Assumptions C08_oj_neutral_column.

Theorem C08_frame_comm opc h m ch d ca ra cb rb : (forall x y, opc x y = opc y x) ->
  multi ca = true -> multi cb = true -> sorted (index_of ra) -> sorted (index_of rb) -> sorted ca -> sorted cb ->
  (h = HI \/ h = HO) -> (ch = HI \/ ch = HO) ->
  binop opc h m ch d (OF ca ra) (OF cb rb) = binop opc h m ch d (OF cb rb) (OF ca ra).
Proof. exact (binop_frames_comm opc h m ch d ca ra cb rb). Qed.
Print Assumptions C08_frame_comm.

(* any two operands among Series / scalar / single-column frame (pseudo-series) / proper frame, at least one proper
   frame: the result frame has the policy's column set and cell (t, x) = opc (operand cell of a) (operand cell of b),
   where a Series, a scalar and a pseudo-series contribute the same value to every column (ocell) *)
Theorem C08_mixed_operands opc h m ch d a b P C : simple a = true -> simple b = true ->
  join_index h (pd_indexes [a; b]) = Some P -> join_index ch (frame_cols [a; b]) = Some C ->
  (forall x, In x C -> is_ser a x || is_ser b x = true) ->
  binop opc h m ch d a b = mix_result opc m d a b C P /\
  (C <> [] -> exists rows, binop opc h m ch d a b = OF C rows /\ index_of rows = P) /\
  (forall t x, In t P -> In x C -> frame_cell (binop opc h m ch d a b) t x = opc (ocell m d a x t) (ocell m d b x t)).
Proof.
  intros Sa Sb HP HC Hs. pose proof (binop_mix opc h m ch d a b P C Sa Sb HP HC Hs) as E. rewrite E.
  split; [reflexivity|]. split.
  - intros Hne. unfold mix_result. destruct C as [|x0 C']; [contradiction|]. eexists. split; [reflexivity|].
    apply (index_map_fn (fun t => map (fun x => opc (ocell m d a x t) (ocell m d b x t)) (x0 :: C'))).
  - intros t x Ht Hx. apply mix_result_cell; assumption.
Qed.
Print Assumptions C08_mixed_operands.

(* the two common mixes spelled out: DataFrame x Series (the series is used for every column) and DataFrame x scalar *)
Theorem C08_frame_with_series_or_scalar opc h m ch d ca ra : multi ca = true -> (forall x, ch <> HX x) ->
  (forall s P t x, join_index h [index_of ra; index_of s] = Some P -> In t P -> In x ca ->
     frame_cell (binop opc h m ch d (OF ca ra) (OS s)) t x = opc (fcell m d ca ra x t) (val_at m s t)) /\
  (forall c t x, (forall y, h <> HX y) -> In t (index_of ra) -> In x ca ->
     frame_cell (binop opc h m ch d (OF ca ra) (ON c)) t x = opc (fcell m d ca ra x t) c /\
     frame_cell (binop opc h m ch d (ON c) (OF ca ra)) t x = opc c (fcell m d ca ra x t)).
Proof.
  intros Ha Hch.
  assert (Hoc : forall x t, ocell m d (OF ca ra) x t = fcell m d ca ra x t).
  { intros x t. destruct (multi_two ca Ha) as [c0 [c1 [cs ->]]]. reflexivity. }
  assert (Hsim : simple (OF ca ra) = true).
  { destruct (multi_two ca Ha) as [c0 [c1 [cs ->]]]. reflexivity. }
  assert (Hser : forall x, In x ca -> is_ser (OF ca ra) x = true).
  { intros x Hx. destruct (multi_two ca Ha) as [c0 [c1 [cs E]]]. subst ca. apply mem_In. exact Hx. }
  split.
  - intros s P t x HP Ht Hx.
    assert (HC : join_index ch (frame_cols [OF ca ra; OS s]) = Some ca).
    { rewrite (proj1 (frame_cols_one ca ra (OS s) Ha ltac:(intros; discriminate))). apply join_index_single. exact Hch. }
    destruct (C08_mixed_operands opc h m ch d (OF ca ra) (OS s) P ca Hsim eq_refl HP HC ltac:(intros; apply orb_true_r)) as [_ [_ Hcell]].
    rewrite (Hcell t x Ht Hx), Hoc. reflexivity.
  - intros c t x Hh Ht Hx. split.
    + assert (HC : join_index ch (frame_cols [OF ca ra; ON c]) = Some ca).
      { rewrite (proj1 (frame_cols_one ca ra (ON c) Ha ltac:(intros; discriminate))). apply join_index_single. exact Hch. }
      assert (HP : join_index h (pd_indexes [OF ca ra; ON c]) = Some (index_of ra)) by (apply join_index_single; exact Hh).
      destruct (C08_mixed_operands opc h m ch d (OF ca ra) (ON c) _ ca Hsim eq_refl HP HC
                  ltac:(intros y Hy; rewrite (Hser y Hy); reflexivity)) as [_ [_ Hcell]].
      rewrite (Hcell t x Ht Hx), Hoc. reflexivity.
    + assert (HC : join_index ch (frame_cols [ON c; OF ca ra]) = Some ca).
      { rewrite (proj2 (frame_cols_one ca ra (ON c) Ha ltac:(intros; discriminate))). apply join_index_single. exact Hch. }
      assert (HP : join_index h (pd_indexes [ON c; OF ca ra]) = Some (index_of ra)) by (apply join_index_single; exact Hh).
      destruct (C08_mixed_operands opc h m ch d (ON c) (OF ca ra) _ ca eq_refl Hsim HP HC
                  ltac:(intros y Hy; rewrite (Hser y Hy); apply orb_true_r)) as [_ [_ Hcell]].
      rewrite (Hcell t x Ht Hx), Hoc. reflexivity.
Qed.
Print Assumptions C08_frame_with_series_or_scalar.

(* the defaults of the kernels are neutral: 0 for add_/sub_, 1 for mul_/div_ *)
Theorem C08_defaults_are_neutral v :
  addc v (Some 0) = v /\ addc (Some 0) v = v /\ subc v (Some 0) = v /\ mulc v (Some 1) = v /\ mulc (Some 1) v = v /\ divc v (Some 1) = v.
Proof.
  destruct (addc_neutral v) as [A [B C]]. destruct (mulc_neutral v) as [D E]. pose proof (divc_neutral v).
  repeat split; assumption.
Qed.
Print Assumptions C08_defaults_are_neutral.

(* division by zero yields NaN (cells are option Z: there is no infinity to yield), for a zero in a series
   as well as for a scalar zero divisor - which keeps the index *)
Theorem C08_div_never_inf opc : (forall x, opc x (Some 0) = None) ->
  (forall h m ch d a b P t, join_index h [index_of a; index_of b] = Some P -> In t P -> val_at m b t = Some 0 ->
     exists s, binop opc h m ch d (OS a) (OS b) = OS s /\ lookup t s = Some None) /\
  (forall h m ch d a, (forall x, h <> HX x) ->
     binop opc h m ch d (OS a) (ON (Some 0)) = OS (map (fun t => (t, None)) (index_of a))).
Proof.
  intros Hz. split.
  - intros h m ch d a b P t HP Ht Hb.
    destruct (binop_series_pointwise opc h m ch d a b P t HP Ht) as [s [Hs Hl]].
    exists s. split; [exact Hs|]. rewrite Hl, Hb, Hz. reflexivity.
  - intros h m ch d a Hh. rewrite binop_scalar_right by exact Hh. f_equal. apply map_ext. intros t. rewrite Hz. reflexivity.
Qed.
Print Assumptions C08_div_never_inf.

Theorem C08_div_instance x :
  divc x (Some 0) = None /\ divc x None = None /\
  (forall a b, b <> 0 -> b <> INFZ -> b <> - INFZ -> a * b <> INFZ -> a * b <> - INFZ -> divc (Some (a * b)) (Some b) = Some a).
Proof. split; [apply divc_zero | split; [apply divc_nan_r | apply divc_exact]]. Qed.
Print Assumptions C08_div_instance.

(* +-inf operands (a cell Some (+-INFZ)): only a ZERO denominator becomes NaN - an infinite numerator over a non-zero
   finite denominator stays infinite (it is the pointwise IEEE result, not a division by zero); the other IEEE results that
   need no rounding: finite / inf = 0, inf / inf = NaN, inf + finite = inf, inf - inf = NaN, inf * 0 = NaN *)
Theorem C08_inf_arithmetic a : a <> INFZ -> a <> - INFZ ->
  (a <> 0 ->
     divc (Some INFZ) (Some a) = Some (if 0 <? a then INFZ else - INFZ) /\
     divc (Some (- INFZ)) (Some a) = Some (if a <? 0 then INFZ else - INFZ) /\
     divc (Some a) (Some INFZ) = Some 0 /\ divc (Some INFZ) (Some INFZ) = None /\ divc (Some INFZ) (Some (- INFZ)) = None) /\
  addc (Some INFZ) (Some a) = Some INFZ /\ addc (Some a) (Some (- INFZ)) = Some (- INFZ) /\
  addc (Some INFZ) (Some (- INFZ)) = None /\ subc (Some INFZ) (Some INFZ) = None /\ subc (Some a) (Some INFZ) = Some (- INFZ) /\
  mulc (Some INFZ) (Some 0) = None /\ mulc (Some INFZ) (Some INFZ) = Some INFZ /\
  (0 < a -> mulc (Some a) (Some (- INFZ)) = Some (- INFZ)) /\ (a < 0 -> mulc (Some a) (Some (- INFZ)) = Some INFZ).
Proof.
  intros A1 A2. split; [intros A0; exact (divc_inf a A0 A1 A2) | exact (arith_inf a A1 A2)].
Qed.
Print Assumptions C08_inf_arithmetic.

(* the pinned tree (before fixes/C08.patch): a scalar zero divisor returns the scalar nan, the index is lost *)
Theorem C08_div_scalar_zero_pinned_refuted :
  exists a, div_pinned HI MNone HI (OS a) (ON (Some 0)) = ON None /\
            binop divc HI MNone HI (Some 1) (OS a) (ON (Some 0)) = OS [(0, None); (1, None)].
Proof. exists [(0, Some 64); (1, None)]. vm_compute. split; reflexivity. Qed.
Print Assumptions C08_div_scalar_zero_pinned_refuted.

(* add_ and mul_ are commutative (inner / outer join), given a commutative cell operation *)
Theorem C08_comm opc h m ch d a b c : (forall x y, opc x y = opc y x) ->
  sorted (index_of a) -> sorted (index_of b) -> (h = HI \/ h = HO) ->
  binop opc h m ch d (OS a) (OS b) = binop opc h m ch d (OS b) (OS a) /\
  binop opc h m ch d (OS a) (ON c) = binop opc h m ch d (ON c) (OS a).
Proof.
  intros Hc Ha Hb Hh. split; [apply binop_series_comm; assumption|].
  apply binop_scalar_comm; [exact Hc|]. intros x E. destruct Hh; subst; discriminate.
Qed.
Print Assumptions C08_comm.

Theorem C08_comm_instances x y : addc x y = addc y x /\ mulc x y = mulc y x.
Proof. split; [apply addc_comm | apply mulc_comm]. Qed.
Print Assumptions C08_comm_instances.

(* df_sum / df_mean / df_count: joint (union for 'oj') index; NaN operands are skipped; NaN / count 0 where no
   operand has data.  agg_cell is what the code computes (NaN -> 0 and add; add the non-NaN indicators). *)
Theorem C08_sum_mean_count g h m ch s0 rest P : all_series (OS s0 :: rest) ->
  join_index h (pd_indexes (OS s0 :: rest)) = Some P ->
  df_agg g h m ch (OS s0 :: rest) =
    OS (map (fun t => (t, agg_cell g (map (fun o => match o with OS s => val_at m s t | _ => None end) (OS s0 :: rest)))) P) /\
  (h = HO -> forall t, In t P <-> exists i, In i (pd_indexes (OS s0 :: rest)) /\ In t i) /\
  (forall cs,
     agg_cell ACount cs = Some (Z.of_nat (length (present cs))) /\
     (present cs = [] <-> forall c, In c cs -> c = None) /\
     (present cs = [] -> agg_cell ASum cs = None /\ agg_cell AMean cs = None) /\
     (present cs <> [] -> has_pinf cs = false -> has_ninf cs = false ->
        agg_cell ASum cs = Some (zsum (present cs)) /\
        agg_cell AMean cs = Some (zsum (present cs) / Z.of_nat (length (present cs)))) /\
     (* +-inf operands are data: counted (present), and they decide sum and mean by the IEEE rules *)
     (has_pinf cs = true \/ has_ninf cs = true -> present cs <> []) /\
     (present cs <> [] -> has_pinf cs = true -> has_ninf cs = false -> agg_cell ASum cs = Some INFZ /\ agg_cell AMean cs = Some INFZ) /\
     (present cs <> [] -> has_pinf cs = false -> has_ninf cs = true -> agg_cell ASum cs = Some (- INFZ) /\ agg_cell AMean cs = Some (- INFZ)) /\
     (has_pinf cs = true -> has_ninf cs = true -> agg_cell ASum cs = None /\ agg_cell AMean cs = None)).
Proof.
  intros Hall HP. split; [exact (df_agg_series g h m ch s0 rest P Hall HP)|]. split.
  - intros ->. exact (join_index_spec HO _ P HP).
  - intros cs. destruct (agg_cell_spec cs) as [A [B [C [D [E F]]]]]. split; [exact A|]. split; [apply present_nil|].
    split; [exact B|]. split; [exact C|]. split; [apply present_counts_inf|]. split; [exact D|]. split; [exact E | exact F].
Qed.
Print Assumptions C08_sum_mean_count.

(* the same on DataFrames: joint index, column set by policy (union for 'oj'); cell (t, x) aggregates the aligned cells of
   all frames, a frame that lacks column x or timestamp t counting as NaN (ocell with default NaN) *)
Theorem C08_sum_mean_count_frames g h m ch c0 r0 rest P C : all_frames (OF c0 r0 :: rest) ->
  join_index h (pd_indexes (OF c0 r0 :: rest)) = Some P -> join_index ch (frame_cols (OF c0 r0 :: rest)) = Some C ->
  df_agg g h m ch (OF c0 r0 :: rest) =
    OF C (map (fun t => (t, map (fun x => agg_cell g (map (fun o => ocell m None o x t) (OF c0 r0 :: rest))) C)) P) /\
  (ch = HO -> forall x, In x C <-> exists c, In c (frame_cols (OF c0 r0 :: rest)) /\ In x c) /\
  (h = HO -> forall t, In t P <-> exists i, In i (pd_indexes (OF c0 r0 :: rest)) /\ In t i).
Proof.
  intros Hall HP HC. split; [exact (df_agg_frames g h m ch c0 r0 rest P C Hall HP HC)|]. split.
  - intros ->. exact (join_index_spec HO _ C HC).
  - intros ->. exact (join_index_spec HO _ P HP).
Qed.
Print Assumptions C08_sum_mean_count_frames.

(* the concrete cell operations of pow_, the comparisons and min_/max_ (exact-integer domain), and the pointwise law
   instantiated for every operator name; min_/max_ go through df_sync + np.minimum/np.maximum (minmax) *)
Theorem C08_operator_instances :
  (forall a b, 0 <= b -> powc (Some a) (Some b) = Some (a ^ b)) /\
  (powc None (Some 0) = Some 1 /\ (forall y, powc (Some 1) y = Some 1) /\
   (forall b, b <> 0 -> powc None (Some b) = None) /\ (forall a, a <> 1 -> powc (Some a) None = None)) /\
  (forall f a b, cmpc f (Some a) (Some b) = Some (if f a b then 1 else 0) /\
                 (forall x, cmpc f None x = Some 0) /\ (forall x, cmpc f x None = Some 0)) /\
  (forall a b, minc (Some a) (Some b) = Some (Z.min a b) /\ maxc (Some a) (Some b) = Some (Z.max a b) /\
               (forall x, minc None x = None /\ minc x None = None /\ maxc None x = None /\ maxc x None = None)) /\
  (forall o h m ch a b P, (o = OpPow \/ o = OpGt \/ o = OpGe \/ o = OpLt \/ o = OpLe) ->
     join_index h [index_of a; index_of b] = Some P ->
     ts_op o h m ch (One (OS a)) (One (OS b)) =
       Some (OS (map (fun t => (t, cell_op o (val_at m a t) (val_at m b t))) P))) /\
  (forall o h m ch a b P, (o = OpMin \/ o = OpMax) -> join_index h [index_of a; index_of b] = Some P ->
     minmax (cell_op o) h m ch [OS a; OS b] =
       Some (OS (map (fun t => (t, cell_op o (val_at m a t) (val_at m b t))) P))).
Proof.
  split; [exact powc_spec|]. split; [exact powc_nan|]. split; [exact cmpc_spec|]. split; [exact minmaxc_spec|]. split.
  - intros o h m ch a b P Ho HP.
    destruct Ho as [->|[->|[->|[->| ->]]]]; simpl; f_equal; apply binop_series; exact HP.
  - intros o h m ch a b P Ho HP. apply minmax_series. exact HP.
Qed.
Print Assumptions C08_operator_instances.

(* whole-object instances for the four arithmetic operators: the public wrapper on two Series and on two proper frames *)
Theorem C08_arith_instances o : (o = OpAdd \/ o = OpSub \/ o = OpMul \/ o = OpDiv) ->
  (forall h m ch a b P, join_index h [index_of a; index_of b] = Some P ->
     ts_op o h m ch (One (OS a)) (One (OS b)) =
       Some (OS (map (fun t => (t, cell_op o (val_at m a t) (val_at m b t))) P))) /\
  (forall h m ch ca ra cb rb P C, multi ca = true -> multi cb = true -> (forall x, ch <> HX x) ->
     join_index h [index_of ra; index_of rb] = Some P -> join_index ch [ca; cb] = Some C ->
     ts_op o h m ch (One (OF ca ra)) (One (OF cb rb)) =
       Some (frame_result (cell_op o) m (op_default o) ca ra cb rb C P)).
Proof.
  intros Ho. split.
  - intros h m ch a b P HP.
    destruct Ho as [->|[->|[->| ->]]]; unfold ts_op, reduce_op, reduce, pre_reduce; cbn [as_list app fold_left cell_op op_default];
      f_equal; apply binop_series; exact HP.
  - intros h m ch ca ra cb rb P C Ha Hb Hch HP HC.
    destruct Ho as [->|[->|[->| ->]]]; unfold ts_op, reduce_op, reduce, pre_reduce; cbn [as_list app fold_left cell_op op_default];
      f_equal; apply binop_frames; assumption.
Qed.
Print Assumptions C08_arith_instances.

(* neither operand a proper frame, at least one a timeseries (Series or single-column frame = pseudo-series): one call;
   the result is the pointwise series, wrapped into a one-column frame iff an operand was a single-column frame
   (the name of that column is not claimed: 0 in the model) *)
Theorem C08_single_column_branch opc h m ch d a b P : pseudo a = true -> pseudo b = true ->
  join_index h (pd_indexes [a; b]) = Some P -> is_ser a 0 || is_ser b 0 = true ->
  let s := map (fun t => (t, opc (ocell m d a 0 t) (ocell m d b 0 t))) P in
  binop opc h m ch d a b = (if has1 a || has1 b then OF [0] (map (fun p => (fst p, [snd p])) s) else OS s) /\
  index_of s = P /\
  (forall t, In t P -> lookup t s = Some (opc (ocell m d a 0 t) (ocell m d b 0 t))) /\
  (forall c0 r t, ocell m d (OF [c0] r) 0 t = row_get [c0] (row_val m [c0] r t) c0).
Proof.
  intros Pa Pb HP Hs s. split; [exact (binop_pseudo opc h m ch d a b P Pa Pb HP Hs)|].
  split; [apply (index_map_fn (fun t => opc (ocell m d a 0 t) (ocell m d b 0 t)))|].
  split; [intros t Ht; apply (lookup_map_fn None is_nan (fun t => opc (ocell m d a 0 t) (ocell m d b 0 t)) P t Ht) | reflexivity].
Qed.
Print Assumptions C08_single_column_branch.

(* min_ / max_ on DataFrames (df_sync, then np.minimum / np.maximum reduced left to right): joint index, column set by
   policy, cell (t, x) = left-to-right min / max of the frames' aligned cells, a frame lacking column x or timestamp t
   contributing NaN; minc / maxc propagate NaN (C08_operator_instances) *)
Theorem C08_min_max_frames o h m ch c0 r0 rest P C : (o = OpMin \/ o = OpMax) -> all_frames (OF c0 r0 :: rest) ->
  join_index h (pd_indexes (OF c0 r0 :: rest)) = Some P -> join_index ch (frame_cols (OF c0 r0 :: rest)) = Some C ->
  minmax (cell_op o) h m ch (OF c0 r0 :: rest) =
    Some (OF C (map (fun t => (t, map (fun x => fold_left (cell_op o) (map (fun f => ocell m None f x t) rest)
                                                           (ocell m None (OF c0 r0) x t)) C)) P)) /\
  (forall cs acc, fold_left (cell_op o) cs None = None /\ (In None cs -> fold_left (cell_op o) cs acc = None)).
Proof.
  intros Ho Hall HP HC. split; [apply minmax_frames; assumption|].
  assert (Hl : forall x, cell_op o None x = None) by (destruct Ho as [->| ->]; intros x; reflexivity).
  assert (Hr : forall x, cell_op o x None = None) by (destruct Ho as [->| ->]; intros [x|]; reflexivity).
  assert (HN : forall cs, fold_left (cell_op o) cs None = None).
  { induction cs as [|c cs IH]; [reflexivity|]. cbn [fold_left]. rewrite Hl. exact IH. }
  intros cs acc. split; [apply HN|]. revert acc. induction cs as [|c cs IH]; intros acc [].
  - subst c. cbn [fold_left]. rewrite Hr. apply HN.
  - cbn [fold_left]. apply IH. assumption.
Qed.
Print Assumptions C08_min_max_frames.

(* min_ / max_ of a one-column DataFrame and a Series, either order (as_series squeezes the frame): a Series on the joint index *)
Theorem C08_min_max_one_column o h m ch c0 r s : (o = OpMin \/ o = OpMax) ->
  (forall P, join_index h [index_of r; index_of s] = Some P ->
     minmax (cell_op o) h m ch [OF [c0] r; OS s] =
       Some (OS (map (fun t => (t, cell_op o (row_get [c0] (row_val m [c0] r t) c0) (val_at m s t))) P))) /\
  (forall P, join_index h [index_of s; index_of r] = Some P ->
     minmax (cell_op o) h m ch [OS s; OF [c0] r] =
       Some (OS (map (fun t => (t, cell_op o (val_at m s t) (row_get [c0] (row_val m [c0] r t) c0))) P))).
Proof.
  intros _. split; intros P HP; [apply minmax_one_column | apply minmax_one_column_swapped]; exact HP.
Qed.
Print Assumptions C08_min_max_one_column.

(* non-vacuity: partially overlapping series, a zero divisor, NaNs; frames with different column sets *)
Example C08_example :
  let a := [(0, Some 64); (1, None); (3, Some 128)] in
  let b := [(1, Some 2); (2, Some 4); (3, Some 0); (6, Some 8)] in
  sorted (index_of a) /\ sorted (index_of b) /\
  join_index HI [index_of a; index_of b] = Some [1; 3] /\
  join_index HO [index_of a; index_of b] = Some [0; 1; 2; 3; 6] /\
  binop divc HI MNone HI (Some 1) (OS a) (OS b) = OS [(1, None); (3, None)] /\
  binop addc HO MFfill HI (Some 0) (OS a) (OS b) = OS [(0, None); (1, Some 66); (2, Some 68); (3, Some 128); (6, Some 136)] /\
  ts_op OpAdd HI MNone HO (One (OF [1; 2] [(0, [Some 1; Some 4])])) (One (OF [2; 3] [(0, [Some 7; Some 10])]))
    = Some (OF [1; 2; 3] [(0, [Some 1; Some 11; Some 10])]) /\
  df_agg AMean HO MNone HO [OS [(0, Some 12); (1, None)]; OS [(0, Some 36); (1, None); (2, Some 60)]]
    = OS [(0, Some 24); (1, None); (2, Some 60)].
Proof.
  cbv zeta. split; [|split].
  - simpl. repeat split; intros y Hy; simpl in Hy; intuition lia.
  - simpl. repeat split; intros y Hy; simpl in Hy; intuition lia.
  - vm_compute. repeat split; reflexivity.
Qed.
