(* C06 - inc and exc partition a table; both keep the columns and the row order; find_<col>.
   c_inc / c_exc / c_find: the algorithm of _dictable.py on the dict-of-lists model (model/M_filter.v);
   r_inc / r_exc / r_find: filter by the condition / by its negation on the list of records. *)
From Coq Require Import ZArith List Bool String Lia Permutation.
From PB Require Import model.M_table model.M_filter proofs.P_table proofs.P_filter.
Import ListNotations.

(* the code's algorithm equals the filter spec, for every rectangular table and every condition (errors included) *)
Theorem C06_inc_refines (c : ctable) (q : query) : Rect c -> r_inc (abs c) q = rmap abs (c_inc c q).
Proof. exact (ref_inc c q). Qed.
Print Assumptions C06_inc_refines.
Theorem C06_exc_refines (c : ctable) (q : query) : Rect c -> r_exc (abs c) q = rmap abs (c_exc c q).
Proof. exact (ref_exc c q). Qed.
Print Assumptions C06_exc_refines.
Theorem C06_inc_result_rectangular (c : ctable) (q : query) (t : ctable) : Rect c -> c_inc c q = Ok t -> Rect t.
Proof. exact (rect_inc c q t). Qed.
Print Assumptions C06_inc_result_rectangular.

(* keyword / dict filters on existing columns: rows(inc) = filter sat rows, rows(exc) = filter (not sat) rows *)
Theorem C06_inc_is_filter (c : ctable) (fs : list (colname * cond)) : Rect c -> keys_ok (dict_of fs) (keys c) = true ->
  rmap abs (c_inc c (QFilters fs)) = Ok (mkR (keys c) (filter (sat_filters (dict_of fs)) (c_iter c))).
Proof. intros R K. rewrite <- (ref_inc c (QFilters fs) R). exact (inc_filters_is_filter (abs c) fs K). Qed.
Print Assumptions C06_inc_is_filter.
Theorem C06_exc_is_filter_neg (c : ctable) (fs : list (colname * cond)) : Rect c -> fs <> [] -> keys_ok (dict_of fs) (keys c) = true ->
  rmap abs (c_exc c (QFilters fs)) = Ok (mkR (keys c) (filter (fun rc => negb (sat_filters (dict_of fs) rc)) (c_iter c))).
Proof. intros R N K. rewrite <- (ref_exc c (QFilters fs) R). exact (exc_filters_is_filter_neg (abs c) fs N K). Qed.
Print Assumptions C06_exc_is_filter_neg.

(* any condition (callables too): one boolean per row; inc keeps the rows marked true, exc the others;
   together they are a permutation of the rows and each is a subsequence (original relative order) *)
Theorem C06_partition (r : rtable) (q : query) (keep : list bool) : sats q r = Ok keep ->
  let inc_rows := kept (combine (recs r) keep) in let exc_rows := kept (combine (recs r) (map negb keep)) in
  r_inc r q = Ok (mkR (cols r) inc_rows) /\
  Permutation (inc_rows ++ exc_rows) (recs r) /\ subseq inc_rows (recs r) /\ subseq exc_rows (recs r).
Proof. intros H. split; [exact (inc_rows r q keep H)|exact (partition_rows r q keep H)]. Qed.
Print Assumptions C06_partition.

(* all columns are kept, even when no row survives *)
Theorem C06_columns_kept (r t : rtable) (q : query) : (r_inc r q = Ok t -> cols t = cols r) /\ (r_exc r q = Ok t -> cols t = cols r).
Proof. split; [exact (inc_cols r q t)|exact (exc_cols r q t)]. Qed.
Print Assumptions C06_columns_kept.

Theorem C06_inc_no_condition_id (r : rtable) : r_inc r QNone = Ok r /\ r_inc r (QFilters []) = Ok r.
Proof. exact (inc_no_condition r). Qed.
Print Assumptions C06_inc_no_condition_id.

Theorem C06_inc_idempotent (r t : rtable) (q : query) : r_inc r q = Ok t -> r_inc t q = Ok t.
Proof. exact (inc_idempotent r q t). Qed.
Print Assumptions C06_inc_idempotent.

(* find_<key>: v is returned iff the rows inc selects are not empty and their key cells are all the same value v;
   otherwise the call raises; and the concrete find_ is the find_ of the records *)
Theorem C06_find_unique (c : ctable) (key : colname) (q : query) (items : rtable) :
  Rect c -> mem key (keys c) = true -> r_inc (abs c) q = Ok items ->
  forall v, c_find c key q = Ok v <->
            exists rest, map (get_or_none key) (recs items) = v :: rest /\ forallb (same_cell v) rest = true.
Proof. intros R M I v. rewrite <- (ref_find c key q R). exact (find_unique (abs c) key q items M I v). Qed.
Print Assumptions C06_find_unique.

(* one_or_none: None when nothing is selected, the single selected row, ValueError when several *)
Theorem C06_one_or_none (c : ctable) (q : query) : Rect c ->
  c_one_or_none c q = r_inc (abs c) q >>= fun t => match recs t with [] => Ok None | [x] => Ok (Some x) | _ => Err EValue end.
Proof. intros R. rewrite <- (ref_one_or_none c q R). reflexivity. Qed.
Print Assumptions C06_one_or_none.

(* non-vacuity: 1 == 1.0 match, the shared NaN object matches itself in a list, a fresh NaN does not *)
Example C06_example :
  let c : ctable := [("a"%string, [CNum false 2; CNaN 0; CNum true 2; CNone]); ("b"%string, [CNum false 0; CNum false 2; CNum false 4; CNum false 6])] in
  rectb c = true /\
  rmap (fun t => c_getcol t "b"%string) (c_inc c (QFilters [("a"%string, CList [CNum false 2; CNaN 0; CNaN 9])])) = Ok (Ok [CNum false 0; CNum false 2; CNum false 4]) /\
  rmap (fun t => c_getcol t "b"%string) (c_exc c (QFilters [("a"%string, CList [CNum false 2; CNaN 0; CNaN 9])])) = Ok (Ok [CNum false 6]) /\
  rmap keys (c_inc c (QFilters [("a"%string, CVal (CStr "zz"))])) = Ok ["a"%string; "b"%string] /\
  c_find c "a"%string (QFilters [("b"%string, CList [CNum false 0; CNum false 4])]) = Ok (CNum false 2) /\
  c_find c "a"%string QNone = Err EValue.
Proof. vm_compute. repeat split; reflexivity. Qed.
