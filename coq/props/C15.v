(* C15 - tree flatten/rebuild are inverse; tree_update is a non-destructive deep merge;
   table_to_tree / tree_to_table inverse.  Property theorems only; every statement quantifies over
   ALL trees of M_tree.tree (any depth, any branching).  cow = true is the repaired code
   (fixes/C15.patch), cow = false the pinned shallow copy; statements with an arbitrary cow hold for both.
   shape_of t is what Python's == sees of a tree (keys in order and leaves; not the dict classes). *)
From Coq Require Import ZArith NArith List Bool String Permutation.
From PB Require Import model.M_eq model.M_tree proofs.P_tree.
Import ListNotations.

(* rebuild inverts flatten on dict-rooted trees with distinct keys and non-empty branches *)
Theorem C15_roundtrip cow t : is_node t = true -> twf t = true -> pfull (shape_of t) = true ->
  exists r w, items_to_tree cow (tree_items t) None [] = Some (r, w) /\ shape_of r = shape_of t.
Proof. exact (roundtrip cow t). Qed.
Print Assumptions C15_roundtrip.

Theorem C15_keys_values_are_items t :
  tree_keys t = map fst (tree_items t) /\ tree_values t = map snd (tree_items t).
Proof. exact (conj (tree_keys_items t) (tree_values_items t)). Qed.
Print Assumptions C15_keys_values_are_items.

Theorem C15_getitem_every_path t p v : twf t = true -> In (p, v) (tree_items t) -> tree_getitem t p = Some (Leaf v).
Proof. intros W. exact (getitem_items t W p v). Qed.
Print Assumptions C15_getitem_every_path.

(* tree_update(t, u, ignore) never raises on dict-rooted operands (u with distinct keys) and returns merge_spec:
   the recursive merge pmerge of t with u after removing every branch of u that holds no leaf (prune) - an empty
   dict in u, at any depth, creates no path and replaces nothing, not even a leaf of t; u = {} gives t.
   No hypothesis on the shape of u: all pairs (t, u). *)
Theorem C15_update_is_merge cow t u ign : is_node t = true -> is_node u = true -> twf u = true ->
  exists r w, tree_update cow t u ign = Some (r, w) /\ shape_of r = merge_spec ign (shape_of t) (shape_of u).
Proof. exact (update_is_merge_general cow t u ign). Qed.
Print Assumptions C15_update_is_merge.

(* when every branch of u is non-empty nothing is pruned: merge_spec is the plain recursive merge *)
Theorem C15_merge_spec_on_full ign t u : pfull u = true -> merge_spec ign t u = pmerge ign t u.
Proof. intros F. unfold merge_spec. rewrite (prune_full u F). reflexivity. Qed.
Print Assumptions C15_merge_spec_on_full.

(* what the recursive merge is, key by key: u's leaves override (unless listed in ignore and the key exists),
   branches on both sides are merged, a branch of u replaces a leaf of t or is added, the rest of t is kept *)
Theorem C15_merge_spec ign kt ku k : nodup_keys ku = true ->
  lookup k (kids_of (pmerge ign (PNode kt) (PNode ku))) =
  match lookup k ku with
  | None => lookup k kt
  | Some (PLeaf v) => match lookup k kt with
                      | Some old => if in_model v ign then Some old else Some (PLeaf v)
                      | None => Some (PLeaf v)
                      end
  | Some (PNode ks) => Some (pmerge ign (match lookup k kt with Some s => s | None => PNode [] end) (PNode ks))
  end.
Proof. exact (pmerge_lookup ign kt ku k). Qed.
Print Assumptions C15_merge_spec.

Theorem C15_update_idem cow t ign : is_node t = true -> twf t = true ->
  exists r w, tree_update cow t t ign = Some (r, w) /\ shape_of r = shape_of t.
Proof.
  intros N W. destruct (update_is_merge_general cow t t ign N N W) as (r & w & E & S).
  exists r, w. split; [exact E|]. rewrite S. apply merge_idem. rewrite pwf_shape. exact W.
Qed.
Print Assumptions C15_update_idem.

Theorem C15_update_empty cow t o c ign : is_node t = true ->
  exists r w, tree_update cow t (Node o c []) ign = Some (r, w) /\ shape_of r = shape_of t.
Proof.
  intros N. destruct (update_is_merge_general cow t (Node o c []) ign N eq_refl eq_refl) as (r & w & E & S).
  exists r, w. split; [exact E|]. rewrite S. destruct t; [discriminate | reflexivity].
Qed.
Print Assumptions C15_update_empty.

(* non-destructive: whatever dict objects t consists of (own flags arbitrary, e.g. all false = all owned by
   the caller), no assignment of the repaired tree_update / table_to_tree goes into a dict object that was
   not allocated by the call itself; u is only ever read (tree_items) *)
Theorem C15_update_heap_frame t u ign r w : is_node t = true -> tree_update true t u ign = Some (r, w) -> w = false.
Proof. exact (update_frame t u ign r w). Qed.
Print Assumptions C15_update_heap_frame.

Theorem C15_table_heap_frame t pat rows r w : is_node t = true -> table_to_tree true (Some t) pat rows = Some (r, w) -> w = false.
Proof. exact (table_frame t pat rows r w). Qed.
Print Assumptions C15_table_heap_frame.

Local Open Scope string_scope.
(* the pinned shallow copy writes into the caller's nested branch: DESIGN section 5 #6 *)
Theorem C15_pinned_refuted :
  let t := Node false 0 [("a", Node false 0 [("b", Leaf (VNum false 2)); ("c", Leaf (VNum false 4))])] in
  let u := Node false 0 [("a", Node false 0 [("b", Leaf (VNum false 10))])] in
  exists r r', tree_update false t u [] = Some (r, true) /\ tree_update true t u [] = Some (r', false) /\ shape_of r = shape_of r'.
Proof. eexists. eexists. vm_compute. repeat split; reflexivity. Qed.
Print Assumptions C15_pinned_refuted.

(* table -> tree -> table.  For ANY list of rows whose items under the pattern exist (rows_items: every wildcard is
   bound, wildcard values in key positions are strings), a pattern of >= 2 segments with distinct wildcard names and
   pairwise distinct paths (the tuples of key-position values): table_to_tree(None, pattern, rows) does not raise and
   tree_to_table of the result is a permutation (the tree's order) of rows', where rows' lists, row for row, the
   original rows restricted to the pattern's wildcards (row_agrees: same value for every wildcard, no other column). *)
Theorem C15_table_tree_inverse cow pat rows its : rows_items rows pat = Some its -> (2 <= List.length pat)%nat ->
  NoDup (wilds pat) -> NoDup (map fst its) ->
  exists t w rows', table_to_tree cow None pat rows = Some (t, w) /\
                    Permutation (tree_to_table t pat) rows' /\ Forall2 (row_agrees pat) rows rows'.
Proof. exact (table_tree_inverse_rows cow pat rows its). Qed.
Print Assumptions C15_table_tree_inverse.

(* tree -> table -> tree, for every tree built from such rows: reading the table back and rebuilding gives the same tree *)
Theorem C15_tree_table_tree_inverse cow cow' pat rows its : rows_items rows pat = Some its -> (2 <= List.length pat)%nat ->
  NoDup (wilds pat) -> NoDup (map fst its) ->
  exists t w t' w', table_to_tree cow None pat rows = Some (t, w) /\
                    table_to_tree cow' None pat (tree_to_table t pat) = Some (t', w') /\ shape_of t' = shape_of t.
Proof. exact (tree_table_tree_rows cow cow' pat rows its). Qed.
Print Assumptions C15_tree_table_tree_inverse.

(* non-vacuity: a depth-3 tree with distinct keys and non-empty branches; a leaf-vs-branch conflict both ways *)
Example C15_example :
  let t := Node false 1 [("a", Node false 0 [("b", Leaf (VNum false 2)); ("c", Node false 2 [("d", Leaf VNone)])]); ("e", Leaf (VStr "x"))] in
  let u := Node false 0 [("a", Node false 0 [("c", Leaf (VNum false 6)); ("z", Node false 0 [("y", Leaf (VNum false 8))])]); ("e", Node false 0 [("f", Leaf VNone)])] in
  is_node t = true /\ twf t = true /\ pfull (shape_of t) = true /\ twf u = true /\ pfull (shape_of u) = true /\
  option_map (fun r => shape_of (fst r)) (tree_update true t u []) =
    Some (PNode [("a", PNode [("b", PLeaf (VNum false 2)); ("c", PLeaf (VNum false 6)); ("z", PNode [("y", PLeaf (VNum false 8))])]);
                 ("e", PNode [("f", PLeaf VNone)])]) /\
  row_item [("m", VStr "TY"); ("w", VNum false 6)] [SLit "markets"; SWild "m"; SLit "weight"; SWild "w"] =
    Some (["markets"; "TY"; "weight"], VNum false 6).
Proof. vm_compute. repeat split; reflexivity. Qed.

(* non-vacuity of the table hypotheses: three rows, interleaved prefixes, 3 wildcards and 2 literals; the rows come
   back grouped by the tree's order (TY, TY, ES), i.e. a permutation, not the original order *)
Example C15_table_example :
  let pat := [SLit "markets"; SWild "m"; SWild "k"; SLit "w"; SWild "w"] in
  let rows := [[("m", VStr "TY"); ("k", VStr "a"); ("w", VNum false 6); ("extra", VNone)];
               [("w", VNum false 14); ("m", VStr "ES"); ("k", VStr "a")];
               [("m", VStr "TY"); ("k", VStr "b"); ("w", VNone)]] in
  let its := [(["markets"; "TY"; "a"; "w"], VNum false 6); (["markets"; "ES"; "a"; "w"], VNum false 14); (["markets"; "TY"; "b"; "w"], VNone)] in
  rows_items rows pat = Some its /\ (2 <= List.length pat)%nat /\ NoDup (wilds pat) /\ NoDup (map fst its) /\
  option_map (fun r => tree_to_table (fst r) pat) (table_to_tree true None pat rows) =
    Some [[("w", VNum false 6); ("k", VStr "a"); ("m", VStr "TY")]; [("w", VNone); ("k", VStr "b"); ("m", VStr "TY")];
          [("w", VNum false 14); ("k", VStr "a"); ("m", VStr "ES")]].
Proof.
  cbv zeta. split; [vm_compute; reflexivity|]. split; [simpl; repeat constructor|].
  split; [simpl; repeat constructor; simpl; intuition discriminate|].
  split; [simpl; repeat constructor; simpl; intuition discriminate|]. vm_compute. reflexivity.
Qed.

(* non-vacuity of the general merge: leafless branches of u (empty, nested-empty, over a leaf of t, new key) change nothing *)
Example C15_empty_branch_example :
  let t := Node false 0 [("a", Leaf (VNum false 2)); ("b", Node false 0 [("c", Leaf (VNum false 4))])] in
  let u := Node false 0 [("a", Node false 0 []); ("b", Node false 0 [("d", Node false 0 [("e", Node false 0 [])]); ("c", Leaf (VNum false 6))]); ("z", Node false 0 [])] in
  twf u = true /\ pfull (shape_of u) = false /\
  option_map (fun r => shape_of (fst r)) (tree_update true t u []) =
    Some (PNode [("a", PLeaf (VNum false 2)); ("b", PNode [("c", PLeaf (VNum false 6))])]) /\
  merge_spec [] (shape_of t) (shape_of u) = PNode [("a", PLeaf (VNum false 2)); ("b", PNode [("c", PLeaf (VNum false 6))])].
Proof. vm_compute. repeat split; reflexivity. Qed.
