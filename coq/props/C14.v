(* C14 - eq is a NaN-aware, type-strict equivalence on values, containers, numpy arrays and
   pandas objects.  Property theorems only; every statement quantifies over ALL values of
   M_eq.val (arbitrary nesting depth and size).  eq_model is the model of the repaired
   pyg_base._eq.eq (fixes/C14.patch), tied to /repo by the correspondence run. *)
From Coq Require Import ZArith NArith List Bool String.
From PB Require Import model.M_eq proofs.P_eq proofs.P_eq_py.
Import ListNotations.
Open Scope Z_scope.

Theorem C14_refl v : eq_model v v = true.
Proof. exact (eq_model_refl v). Qed.
Print Assumptions C14_refl.

Theorem C14_sym x y : eq_model x y = eq_model y x.
Proof. exact (eq_model_sym x y). Qed.
Print Assumptions C14_sym.

Theorem C14_trans x y z : eq_model x y = true -> eq_model y z = true -> eq_model x z = true.
Proof. exact (eq_model_trans x y z). Qed.
Print Assumptions C14_trans.

(* a structural copy whose NaN objects are all different ones (any renaming f of NaN identities) *)
Theorem C14_nan_any_depth f v : eq_model v (refresh f v) = true.
Proof. exact (eq_model_refresh f v). Qed.
Print Assumptions C14_nan_any_depth.

(* container kinds: scalar | tuple | list | dict of class c | ndarray | Series | DataFrame *)
Theorem C14_container_type_strict x y : kind_of x <> kind_of y -> eq_model x y = false.
Proof. exact (eq_model_kind x y). Qed.
Print Assumptions C14_container_type_strict.

Theorem C14_container_type_strict_instances l l' sh c cls cls' items items' s :
  eq_model (VList l) (VTuple l') = false /\ eq_model (VList l) (VArr sh c) = false /\
  eq_model (VTuple l) (VArr sh c) = false /\
  (cls <> cls' -> eq_model (VDict cls items) (VDict cls' items') = false) /\
  (is_container s = false -> eq_model s (VArr sh c) = false /\ eq_model (VArr sh c) s = false).
Proof.
  repeat split; try (apply eq_model_kind; simpl; congruence).
  - intros H. apply eq_model_kind. simpl. congruence.
  - apply eq_model_kind. destruct s; simpl in *; congruence.
  - apply eq_model_kind. destruct s; simpl in *; congruence.
Qed.
Print Assumptions C14_container_type_strict_instances.

(* instances of tuple / list subclasses and namedtuples (VSeq cls) are a container kind of their own, in both argument orders *)
Theorem C14_subclass_strict c c' l l' :
  eq_model (VTuple l) (VSeq c l') = false /\ eq_model (VSeq c l') (VTuple l) = false /\
  eq_model (VList l) (VSeq c l') = false /\ eq_model (VSeq c l') (VList l) = false /\
  (c <> c' -> eq_model (VSeq c l) (VSeq c' l') = false).
Proof. repeat split; try (apply eq_model_kind; simpl; congruence). intros H. apply eq_model_kind. simpl. congruence. Qed.
Print Assumptions C14_subclass_strict.

Theorem C14_array_shape_and_cells sh c sh' c' : arr_wf sh c -> arr_wf sh' c' ->
  (eq_model (VArr sh c) (VArr sh' c') = true <-> sh = sh' /\ Forall2 (fun a b => eq_model a b = true) c c').
Proof. exact (eq_model_array_wf sh c sh' c'). Qed.
Print Assumptions C14_array_shape_and_cells.

Theorem C14_pandas_index_columns_cells ix col c ix' col' c' :
  (series_wf ix c -> series_wf ix' c' ->
   (eq_model (VSeries ix c) (VSeries ix' c') = true <->
    Forall2 (fun a b => eq_model a b = true) ix ix' /\ Forall2 (fun a b => eq_model a b = true) c c')) /\
  (frame_wf ix col c -> frame_wf ix' col' c' ->
   (eq_model (VFrame ix col c) (VFrame ix' col' c') = true <->
    Forall2 (fun a b => eq_model a b = true) ix ix' /\ Forall2 (fun a b => eq_model a b = true) col col' /\
    Forall2 (fun a b => eq_model a b = true) c c')).
Proof. split; [exact (eq_model_series ix c ix' c') | exact (eq_model_frame ix col c ix' col' c')]. Qed.
Print Assumptions C14_pandas_index_columns_cells.

(* on NaN-free plain values (None, numbers, str, dates, nested list / tuple / dict with distinct keys)
   eq is Python's own ==, where dict == dict is by key lookup whatever the insertion order *)
Theorem C14_agrees_with_py_eq_on_plain x y : plain x = true -> plain y = true -> eq_model x y = py_eq x y.
Proof. exact (eq_model_py_eq x y). Qed.
Print Assumptions C14_agrees_with_py_eq_on_plain.

Theorem C14_in_is_exists_eq x seq : in_model x seq = true <-> exists s, In s seq /\ eq_model x s = true.
Proof. exact (in_model_spec x seq). Qed.
Print Assumptions C14_in_is_exists_eq.

(* non-vacuity: well-formed nested values satisfying the hypotheses; a dict holding an array holding NaN
   equals its re-ordered copy with other NaN objects and float/int representations, and differs from
   the same content in other container kinds *)
Local Open Scope string_scope.
Example C14_example :
  let a := VArr [2; 1] [VNum true 2; VNaN 1] in
  let x := VDict 0 [("b", VList [VNum false 4; a]); ("a", VNone)] in
  let y := VDict 0 [("a", VNone); ("b", VList [VNum true 4; VArr [2; 1] [VBool true; VNaN 7]])] in
  arr_wf [2; 1] [VNum true 2; VNaN 1] /\ frame_wf [VNum false 0] [VStr "p"; VStr "q"] [VNum true 2; VNaN 3] /\
  eq_model x y = true /\ eq_model x (refresh N.succ x) = true /\
  eq_model a (VArr [1; 2] [VNum true 2; VNaN 1]) = false /\
  eq_model (VNum false 2) (VArr [1] [VNum false 2]) = false /\ eq_model (VArr [1] [VNum false 2]) (VNum false 2) = false /\
  eq_model (VDict 0 [("a", VList [VNum false 2])]) (VDict 0 [("a", VTuple [VNum false 2])]) = false /\
  plain (VDict 0 [("b", VList [VNum false 4]); ("a", VNone)]) = true /\
  py_eq (VDict 0 [("b", VList [VNum false 4]); ("a", VNone)]) (VDict 0 [("a", VNone); ("b", VList [VNum true 4])]) = true.
Proof. vm_compute. repeat split; reflexivity. Qed.
