(* C09 — dt_bump adds business days, calendar units and compound tenors exactly.
   Property theorems only; each is closed by an existing lemma.  Statements about
   Gen_dates.* are about the Gallina text regenerated from /repo/src/pyg_base/_dates.py. *)
From Coq Require Import ZArith List Bool Lia String.
From PB Require Import model.M_cal model.M_dates model.M_tenor proofs.P_cal proofs.P_dates_b proofs.P_dates_m proofs.P_dates_gen proofs.P_tenor.
From PB Require gen.Gen_dates.
Import ListNotations.
Open Scope Z_scope.

(* business days: from a weekday, 'nb' is the n-th weekday after / before t *)
Theorem C09_b_is_nth_weekday t n : weekday t <= 4 -> Gen_dates.bump_b t n = Some (nth_wd t n).
Proof. intros H. rewrite gen_bump_b. cbn [bump1]. f_equal. exact (bump_b_is_nth_wd t n H). Qed.
Print Assumptions C09_b_is_nth_weekday.

Theorem C09_b_weekend_rolls_first t n :
  Gen_dates.bump_b t n = Gen_dates.bump_b (roll_monday t) n /\ (4 < weekday t -> weekday (roll_monday t) = 0).
Proof. rewrite !gen_bump_b. cbn [bump1]. split; [f_equal; exact (bump_b_rolls_first t n) | exact (roll_monday_weekday t)]. Qed.
Print Assumptions C09_b_weekend_rolls_first.

Theorem C09_b_lands_on_weekday t n : exists r, Gen_dates.bump_b t n = Some r /\ weekday r <= 4 /\ tod_of_us r = tod_of_us t.
Proof. exists (bump_b t n). rewrite gen_bump_b. split; [reflexivity|]. split; [exact (bump_b_weekday t n) | exact (bump_b_tod t n)]. Qed.
Print Assumptions C09_b_lands_on_weekday.

(* monotone in t: on the day of the result for all datetimes, and on the datetime itself
   for datetimes sharing a time of day (dates in particular) *)
Theorem C09_b_monotone t1 t2 n : t1 <= t2 ->
  ord_of_us (bump_b t1 n) <= ord_of_us (bump_b t2 n) /\
  (tod_of_us t1 = tod_of_us t2 -> bump_b t1 n <= bump_b t2 n).
Proof. intros H. split; [exact (bump_b_monotone t1 t2 n H (or_intror I)) | intros HT; exact (bump_b_mono_same_tod t1 t2 n HT H)]. Qed.
Print Assumptions C09_b_monotone.
(* full statement, refuted for intraday weekend starts (recorded as a known finding) *)
Theorem C09_b_monotone_intraday_refuted : exists t1 t2 n, t1 < t2 /\ bump_b t2 n < bump_b t1 n.
Proof. exact bump_b_mono_intraday_refuted. Qed.
Print Assumptions C09_b_monotone_intraday_refuted.

Theorem C09_b_compose_same_sign t a b : weekday t <= 4 -> (0 <= a /\ 0 <= b) \/ (a <= 0 /\ b <= 0) ->
  bump_b (bump_b t a) b = bump_b t (a + b).
Proof. exact (bump_b_compose t a b). Qed.
Print Assumptions C09_b_compose_same_sign.

Theorem C09_b_inverse t n : weekday t <= 4 -> bump_b (bump_b t n) (- n) = t.
Proof. exact (bump_b_inverse t n). Qed.
Print Assumptions C09_b_inverse.

(* fixed-length units add exactly that much time, and +x then -x returns to t *)
Theorem C09_fixed_units_exact t k :
  Gen_dates.bump_d t k = Some (t + k * DAYUS) /\ Gen_dates.bump_w t k = Some (t + 7 * k * DAYUS) /\
  Gen_dates.bump_h t k = Some (t + k * 3600000000) /\ Gen_dates.bump_n t k = Some (t + k * 60000000) /\
  Gen_dates.bump_s t k = Some (t + k * 1000000).
Proof. rewrite gen_bump_d, gen_bump_w, gen_bump_h, gen_bump_n, gen_bump_s. exact (fixed_units t k). Qed.
Print Assumptions C09_fixed_units_exact.

Theorem C09_fixed_units_inverse t k u t' : (u = UD \/ u = UW \/ u = UH \/ u = UN \/ u = US) ->
  bump1 t (k, u) = Some t' -> bump1 t' (- k, u) = Some t.
Proof. exact (fixed_units_inverse t k u t'). Qed.
Print Assumptions C09_fixed_units_inverse.

(* month / quarter / year: the day of month is kept when it exists in the target month,
   otherwise the excess days roll into the following month; result is at midnight *)
Theorem C09_month_keeps_day_or_rolls u t k y m d y' m' :
  (u = UM \/ u = UQ \/ u = UY) ->
  ymd_of_ord (ord_of_us t) = (y, m, d) -> month_target u y m k = (y', m') -> 1 <= y' <= 9999 ->
  exists r, bump1 t (k, u) = Some r /\ tod_of_us r = 0 /\
    ymd_of_ord (ord_of_us r) =
      if d <=? dim y' m' then (y', m', d)
      else let '(y2, m2) := ym y' (m' + 1) in (y2, m2, d - dim y' m').
Proof. exact (bump_month_lands u t k y m d y' m'). Qed.
Print Assumptions C09_month_keeps_day_or_rolls.

Theorem C09_month_generated_is_model t k :
  Gen_dates.bump_m t k = bump1 t (k, UM) /\ Gen_dates.bump_q t k = bump1 t (k, UQ) /\ Gen_dates.bump_y t k = bump1 t (k, UY).
Proof. exact (conj (gen_bump_m t k) (conj (gen_bump_q t k) (gen_bump_y t k))). Qed.
Print Assumptions C09_month_generated_is_model.

Theorem C09_month_inverse_le28 t k y m d y' m' :
  tod_of_us t = 0 -> ymd_of_ord (ord_of_us t) = (y, m, d) -> d <= 28 ->
  ym y (m + k) = (y', m') -> 1 <= y' <= 9999 -> 1 <= y <= 9999 ->
  exists r, bump1 t (k, UM) = Some r /\ bump1 r (- k, UM) = Some t.
Proof. exact (bump_month_inverse t k y m d y' m'). Qed.
Print Assumptions C09_month_inverse_le28.

Theorem C09_year_inverse_le28 t k y m d :
  tod_of_us t = 0 -> ymd_of_ord (ord_of_us t) = (y, m, d) -> d <= 28 ->
  1 <= y + k <= 9999 -> 1 <= y <= 9999 ->
  exists r, bump1 t (k, UY) = Some r /\ bump1 r (- k, UY) = Some t.
Proof. exact (bump_year_inverse t k y m d). Qed.
Print Assumptions C09_year_inverse_le28.

(* compound tenors apply their parts left to right *)
Theorem C09_compound_left_to_right t a b :
  dt_bump t (a ++ b) = match dt_bump t a with Some t' => dt_bump t' b | None => None end.
Proof. exact (dt_bump_app t a b). Qed.
Print Assumptions C09_compound_left_to_right.

(* the tokeniser: every well-formed tenor string (parts = optional sign, digits, unit letter) parses to
   exactly the tokens it spells, so the token-level theorems above speak about the strings themselves *)
Theorem C09_tokenizer_reads_spelling ps : Forall well_formed ps -> forall fuel,
  (List.length (List.concat (map spell ps)) < fuel)%nat ->
  tokens_fuel fuel (List.concat (map spell ps)) = Some (map meaning ps).
Proof. exact (tokens_of_spelling ps). Qed.
Print Assumptions C09_tokenizer_reads_spelling.

(* non-vacuity: 2000-01-31 (Monday) satisfies the hypotheses; '1m' rolls 2 excess days into March *)
Example C09_example :
  let t := us_of_ord 730150 in
  weekday t = 0 /\ ymd_of_ord (ord_of_us t) = (2000, 1, 31) /\
  dt_bump t [(1, UM)] = Some (us_of_ord 730181) /\ ymd_of_ord 730181 = (2000, 3, 2) /\
  dt_bump t [(1, UY); (-3, UM); (2, UD)] = Some (us_of_ord (ord_of_ymd 2000 11 2)) /\
  tokenize "1Y-3m+2d"%string = Some [(1, UY); (-3, UM); (2, UD)] /\ tokenize "spot"%string = Some [(0, UB)] /\
  tokenize "1y3"%string = None /\ dt_bump_str t "1y-3m2d"%string = Some (us_of_ord (ord_of_ymd 2000 11 2)).
Proof. vm_compute. repeat split; reflexivity. Qed.
