(* C16 — ulist, dictattr and Dict implement ordered set / key algebra without side effects.
   Property theorems only; each is closed by a lemma of proofs/P_keys.v about the executable
   models of model/M_keys.v (tied to /repo by the correspondence run). *)
From Coq Require Import List Bool String Sorted Permutation ZArith Lia.
From PB Require Import model.M_keys proofs.P_keys.
Import ListNotations.
Local Open Scope string_scope.

(* Python == on hashables: an equivalence (1 == 1.0 == True), not Leibniz equality *)
Definition lawful {A} (eqb : A -> A -> bool) : Prop :=
  (forall x, eqb x x = true) /\ (forall x y, eqb x y = eqb y x) /\
  (forall x y z, eqb x y = true -> eqb y z = true -> eqb x z = true).

(* ulist(l): no duplicates, same members, strictly increasing first indices (first-occurrence order),
   every kept element is the one at its first index; and the set / index / sorted pipeline of
   ulist.__init__ gives this for EVERY iteration order s of set(l) *)
Theorem C16_ulist_nodup_first_order A (eqb : A -> A -> bool) (l s : list A) : lawful eqb ->
  NoDupE eqb (mk eqb l) /\ (forall x, mem eqb x (mk eqb l) = mem eqb x l) /\
  StronglySorted lt (map (fun x => index eqb x l) (mk eqb l)) /\
  (forall x, In x (mk eqb l) -> nth_error l (index eqb x l) = Some x) /\
  (Permutation s (dedup eqb l) -> ulist_init_with eqb s l = mk eqb l).
Proof.
  intros [R [S T]]. destruct (ulist_nodup_first_order eqb R S T l) as [H1 [H2 [H3 H4]]].
  repeat split; auto. intros HP. rewrite (mk_dedup eqb R S). apply ulist_init_any_set_order; auto.
Qed.
Print Assumptions C16_ulist_nodup_first_order.

(* u + x and u | x: ordered union, for an element or a list; the result is a ulist *)
Theorem C16_ulist_union A (eqb : A -> A -> bool) (u : list A) (o : other A) : lawful eqb -> NoDupE eqb u ->
  ul_add eqb u o = ounion eqb u (other_list o) /\ NoDupE eqb (ul_add eqb u o).
Proof. intros [R [S T]] H. split; [apply ul_add_union; auto|apply (ul_results_are_ulists eqb R S T u o H)]. Qed.
Print Assumptions C16_ulist_union.

Theorem C16_ulist_diff A (eqb : A -> A -> bool) (u : list A) (o : other A) : lawful eqb -> NoDupE eqb u ->
  ul_sub eqb u o = odiff eqb u (other_list o) /\ NoDupE eqb (ul_sub eqb u o).
Proof. intros [R [S T]] H. split; [apply ul_sub_diff; auto|apply (ul_results_are_ulists eqb R S T u o H)]. Qed.
Print Assumptions C16_ulist_diff.

(* u & x: equal to the ordered intersection for a list; for a single element the result is [x] itself,
   element-wise == to the ordered intersection *)
Theorem C16_ulist_inter A (eqb : A -> A -> bool) (u : list A) (o : other A) : lawful eqb -> NoDupE eqb u ->
  Forall2 (fun a b => eqb a b = true) (ul_and eqb u o) (ointer eqb u (other_list o)) /\
  (forall x, o = OList x -> ul_and eqb u o = ointer eqb u x) /\ NoDupE eqb (ul_and eqb u o).
Proof.
  intros [R [S T]] H. destruct (ul_and_inter eqb R S T u o H) as [H1 H2]. repeat split; auto.
  apply (ul_results_are_ulists eqb R S T u o H).
Qed.
Print Assumptions C16_ulist_inter.

(* (d - k).keys() == d.keys() - k for a key or a list of keys; the surviving values are untouched *)
Theorem C16_keys_sub V c (d : amap V) ks (sel : other string) : NoDup (akeys d) ->
  (sel = OList ks \/ (exists k, sel = OElem k /\ ks = [k])) ->
  exists m, d_sub c d ks = DObj c m /\ akeys m = ul_sub String.eqb (akeys d) sel /\
    (forall k, aget k m = if mem String.eqb k ks then None else aget k d).
Proof.
  intros HN Hs. destruct (keys_sub_commutes c d ks sel HN Hs) as [m [E1 E2]].
  destruct (d_sub_spec c d ks) as [m' [E1' [_ E3]]]. exists m. repeat split; auto.
  assert (m = m') by congruence. subst. exact E3.
Qed.
Print Assumptions C16_keys_sub.

(* d & keys keeps exactly the selected keys that are present, in d's order, values untouched *)
Theorem C16_keys_and V c (d : amap V) ks : NoDup (akeys d) ->
  exists m, d_and c d ks = DObj c m /\ akeys m = ointer String.eqb (akeys d) ks /\
    (forall k, aget k m = if mem String.eqb k ks then aget k d else None).
Proof. exact (d_and_spec c d ks). Qed.
Print Assumptions C16_keys_and.

(* d[[k1, ...]] is the sub-mapping on those keys (first-occurrence order of the selection) and
   d[k1, ...] the list of their values, when all are present *)
Theorem C16_getitem_many V c (d : amap V) ks : (forall k, In k ks -> aget k d <> None) ->
  (exists m, d_getlist c d ks = DObj c m /\ akeys m = dedup String.eqb ks /\ (forall k, In k ks -> aget k m = aget k d)) /\
  (exists vs, d_gettuple d ks = DVals vs /\ Forall2 (fun k v => aget k d = Some v) ks vs).
Proof. intros H. split; [apply d_getlist_spec|apply d_gettuple_spec]; auto. Qed.
Print Assumptions C16_getitem_many.

(* item access of an absent key raises KeyError; attribute access mirrors item access (AttributeError when absent) *)
Theorem C16_getitem_absent_raises V c (d : amap V) ks k : In k ks -> aget k d = None ->
  d_getlist c d ks = DErr "KeyError" /\ d_gettuple d ks = DErr "KeyError".
Proof. exact (d_getitem_absent c d ks k). Qed.
Print Assumptions C16_getitem_absent_raises.
Theorem C16_attr_mirrors_item V (d : amap V) k :
  d_attr d k = match aget k d with Some v => DVals [v] | None => DErr "AttributeError" end.
Proof. reflexivity. Qed.
Print Assumptions C16_attr_mirrors_item.

(* d + o == {**d, **o} (leaf values; other of a recognised mapping type when d is a Dict): lookups
   prefer o, keys are d's in order followed by the new keys of o in order *)
Theorem C16_add_is_update V c (d : amap V) oc (o : amap V) : NoDup (akeys d) -> NoDup (akeys o) ->
  (is_Dict c = false \/ is_tree_type oc = true) ->
  exists m, d_add c d oc o = DObj c m /\ d_or c d o = DObj c m /\
    (forall k, aget k m = match aget k o with Some v => Some v | None => aget k d end) /\
    akeys m = ounion String.eqb (akeys d) (akeys o).
Proof.
  intros Hd Ho Hc. destruct (d_add_is_update c d oc o Hc) as [E1 E2]. exists (merged d o).
  repeat split; auto. - intros k. apply aget_merged; auto. - apply akeys_merged; auto.
Qed.
Print Assumptions C16_add_is_update.

Theorem C16_relabel V c (d : amap V) a kw :
  let r := relabel_map (akeys d) a kw in
  let rename := fun k => match aget k r with Some n => n | None => k end in
  exists m, d_relabel c d a kw = DObj c m /\ akeys m = dedup String.eqb (map rename (akeys d)) /\
    (NoDup (map rename (akeys d)) -> m = map (fun kv => (rename (fst kv), snd kv)) d).
Proof. exact (d_relabel_spec c d a kw). Qed.
Print Assumptions C16_relabel.

Theorem C16_class_preserved V c (d : amap V) :
  (forall ks m c', d_sub c d ks = DObj c' m -> c' = c) /\ (forall ks m c', d_and c d ks = DObj c' m -> c' = c) /\
  (forall ks m c', d_getlist c d ks = DObj c' m -> c' = c) /\ (forall oc o m c', d_add c d oc o = DObj c' m -> c' = c) /\
  (forall o m c', d_or c d o = DObj c' m -> c' = c) /\ (forall a kw m c', d_relabel c d a kw = DObj c' m -> c' = c).
Proof. exact (class_preserved c d). Qed.
Print Assumptions C16_class_preserved.

(* known finding: for a subclass with its own __init__ signature the operators that build their result through
   type(self)(...) re-run the constructor on the result dict passed positionally: the whole mapping lands in the first parameter
   (the others take their defaults), or a keyword-only constructor raises; for every other class the entry points are the operators proved above *)
Theorem C16_subclass_constructor_rerun_refuted :
  d_and_py (fun _ => 0%Z) (fun _ => (-1)%Z) CPoint [("x", 1%Z); ("y", 2%Z); ("z", 3%Z)] ["z"] = DObj CPoint [("x", (-1)%Z); ("y", 0%Z)] /\
  d_and CPoint [("x", 1%Z); ("y", 2%Z); ("z", 3%Z)] ["z"] = DObj CPoint [("z", 3%Z)] /\
  d_getlist_py (fun _ => 0%Z) (fun _ => (-1)%Z) CPoint [("x", 1%Z); ("z", 3%Z)] ["z"] = DObj CPoint [("x", (-1)%Z); ("y", 0%Z)] /\
  d_relabel_py (fun _ => 0%Z) (fun _ => (-1)%Z) CKwInit [("name", 1%Z)] RNone [("name", "n2")] = DErr "TypeError" /\
  d_or_py (fun _ => 0%Z) (fun _ => (-1)%Z) CKwInit [("name", 1%Z)] [("w", 5%Z)] = DErr "TypeError".
Proof. vm_compute. repeat split. Qed.
Print Assumptions C16_subclass_constructor_rerun_refuted.
Theorem C16_entry_points V (init_default : string -> V) (as_value : amap V -> V) c (d : amap V) ks o a kw : own_init c = false ->
  d_and_py init_default as_value c d ks = d_and c d ks /\ d_getlist_py init_default as_value c d ks = d_getlist c d ks /\
  d_or_py init_default as_value c d o = d_or c d o /\ d_relabel_py init_default as_value c d a kw = d_relabel c d a kw.
Proof.
  intros H. unfold d_and_py, d_getlist_py, d_or_py, d_relabel_py, rerun_pos.
  destruct c; try discriminate; repeat split;
    try (destruct (d_and _ d ks); reflexivity); try (destruct (d_relabel _ d a kw); reflexivity);
    try (destruct (d_getlist _ d ks); reflexivity); destruct (d_or _ d o); reflexivity.
Qed.
Print Assumptions C16_entry_points.

(* the in-place steps of __sub__ (res.__sub__(k, copy = False)) and __add__ (res.update) write only
   to the fresh copy: every object that existed before, the operands included, is unchanged *)
Theorem C16_operand_unchanged V (h : heap (V := V)) i io ks : i < List.length h -> io < List.length h ->
  (let '(h', j) := h_sub h i ks in
     j = List.length h /\ (forall i', i' < List.length h -> hget h' i' = hget h i') /\
     hget h' j = fold_left (fun m k => adel k m) ks (hget h i)) /\
  (let '(h', j) := h_add h i io in
     j = List.length h /\ (forall i', i' < List.length h -> hget h' i' = hget h i') /\
     hget h' j = merged (hget h i) (hget h io)).
Proof. intros H1 H2. split; [apply h_sub_fresh; auto|apply h_add_fresh; auto]. Qed.
Print Assumptions C16_operand_unchanged.

(* a parameter with a default still counts as a dependency when its name is a derived key, takes the mapping's value when
   there is one, and falls back to its default only when its name is nowhere: c = lambda a, b=100 waits for b *)
Theorem C16_call_defaulted_parameters :
  let c := IFun [("a", None); ("b", Some 100%Z)] (fun vs => fold_left Z.add vs 0%Z) in
  let b := IFun [("a", None)] (fun vs => fold_left Z.add vs 1%Z) in
  dict_call (fun _ => 0%Z) [("a", 1%Z)] [("c", c); ("b", b)] = COk [("a", 1%Z); ("b", 2%Z); ("c", 3%Z)] /\
  dict_call (fun _ => 0%Z) [("a", 1%Z)] [("b", b); ("c", c)] = COk [("a", 1%Z); ("b", 2%Z); ("c", 3%Z)] /\
  dict_call (fun _ => 0%Z) [("a", 1%Z)] [("c", c)] = COk [("a", 1%Z); ("c", 101%Z)] /\
  dict_call (fun _ => 0%Z) [("a", 1%Z); ("b", 7%Z)] [("c", c)] = COk [("a", 1%Z); ("b", 7%Z); ("c", 8%Z)].
Proof. vm_compute. repeat split. Qed.
Print Assumptions C16_call_defaulted_parameters.

(* Dict.__call__: for acyclic definitions whose parameters can all be bound, the call succeeds, the
   result satisfies every definition (each derived key = its function of the final values of its
   parameters, everything else untouched), such a result is unique, and it is the same mapping for
   EVERY order of the keywords *)
Theorem C16_call_order_independent V (inj : string -> V) base kw kw' : Permutation kw kw' -> NoDup (map fst kw) ->
  self_free base kw -> avail (aupdate base (consts kw)) (funs kw) -> acyclic (funs kw) ->
  exists R R', dict_call inj base kw = COk R /\ dict_call inj base kw' = COk R' /\ (forall k, aget k R = aget k R') /\
    solves inj (aupdate base (consts kw)) (funs kw) R /\
    (forall R2, solves inj (aupdate base (consts kw)) (funs kw) R2 -> forall k, aget k R2 = aget k R).
Proof.
  intros HP HN HSF HA HC. destruct (call_order_independent inj base kw kw' HP HN HSF HA HC) as [R [R' [E1 [E2 E3]]]].
  destruct (dict_call_solves inj base kw HN HSF HA HC) as [R0 [E0 S0]]. assert (R0 = R) by congruence. subst R0.
  exists R, R'. split; [auto|]. split; [auto|]. split; [auto|]. split; [exact S0|].
  intros R2 S2. apply (solves_unique inj _ _ R2 R HC S2 S0).
Qed.
Print Assumptions C16_call_order_independent.

(* ... and equals one-by-one evaluation in any dependency (topological) order *)
Theorem C16_call_is_dependency_order_evaluation V (inj : string -> V) base kw order : NoDup (map fst kw) ->
  self_free base kw -> avail (aupdate base (consts kw)) (funs kw) -> acyclic (funs kw) ->
  Permutation order (funs kw) -> sched (funs kw) (skeys (funs kw)) order ->
  exists R R', dict_call inj base kw = COk R /\ eval_seq inj (aupdate base (consts kw)) order = Some R' /\
               forall k, aget k R = aget k R'.
Proof. exact (call_is_topological_evaluation inj base kw order). Qed.
Print Assumptions C16_call_is_dependency_order_evaluation.

(* circular definitions: a set S of >= 2 derived keys each depending on a member of S (any dependency
   cycle k0 -> k1 -> ... -> k0 of length >= 2 is one) gives ValueError, in every keyword order *)
Theorem C16_call_cycle_raises V (inj : string -> V) base kw S : NoDup (map fst kw) -> self_free base kw ->
  avail (aupdate base (consts kw)) (funs kw) ->
  (forall k, In k S -> In k (skeys (funs kw))) ->
  (forall kc, In kc (funs kw) -> In (fst kc) S -> exists d, In d (deps kc) /\ In d S) ->
  (exists k1 k2, In k1 S /\ In k2 S /\ k1 <> k2) ->
  dict_call inj base kw = CErr "ValueError".
Proof. exact (call_cycle_raises inj base kw S). Qed.
Print Assumptions C16_call_cycle_raises.

(* known finding: an entry or a keyword literally named self collides with the self parameter of the methods the
   values travel through (Dict.__call__, wrapper.__call__): TypeError even for a callable that never asks for it *)
Theorem C16_call_self_named_key_refuted :
  dict_call (fun _ => 0%Z) [("a", 1%Z); ("self", 2%Z)] [("k", IFun [("a", None)] (fun vs => 0%Z))] = CErr "TypeError" /\
  dict_call (fun _ => 0%Z) [("a", 1%Z)] [("self", IConst 2%Z)] = CErr "TypeError" /\
  dict_call (fun _ => 0%Z) [("a", 1%Z)] [("k", IFun [("a", None)] (fun vs => 0%Z))] = COk [("a", 1%Z); ("k", 0%Z)].
Proof. vm_compute. repeat split. Qed.
Print Assumptions C16_call_self_named_key_refuted.

(* the while loop terminates on every input: each round removes at least one key *)
Theorem C16_call_terminates V (inj : string -> V) base kw : dict_call inj base kw <> CErr "fuel".
Proof. exact (dict_call_terminates inj base kw). Qed.
Print Assumptions C16_call_terminates.

(* non-vacuity *)
Example C16_example :
  lawful hv_eqb /\
  mk hv_eqb [HInt 1; HInt 3; HFloat 1; HInt 2; HBool true; HInt 3] = [HInt 1; HInt 3; HInt 2] /\
  ul_add hv_eqb [HInt 1; HInt 3; HInt 2] (OList [HInt 4; HFloat 1; HInt 5; HInt 4]) = [HInt 1; HInt 3; HInt 2; HInt 4; HInt 5] /\
  ul_and hv_eqb [HInt 1; HInt 3; HInt 2] (OElem (HFloat 3)) = [HFloat 3] /\
  (let kw := [("c", IFun [("a", None); ("b", Some 100%Z)] (fun vs => fold_left Z.add vs 0%Z)); ("b", IFun [("a", None)] (fun vs => fold_left Z.add vs 1%Z))] in
   acyclic (funs kw) /\ avail (aupdate [("a", 1%Z)] (consts kw)) (funs kw) /\ NoDup (map fst kw) /\ self_free [("a", 1%Z)] kw /\
   dict_call (fun _ => 0%Z) [("a", 1%Z)] kw = COk [("a", 1%Z); ("b", 2%Z); ("c", 3%Z)] /\
   dict_call (fun _ => 0%Z) [("a", 1%Z)] (rev kw) = COk [("a", 1%Z); ("b", 2%Z); ("c", 3%Z)]) /\
  dict_call (fun _ => 0%Z) [("a", 1%Z)] [("b", IFun [("c", None)] (fun vs => 0%Z)); ("c", IFun [("b", Some 5%Z)] (fun vs => 0%Z))] = CErr "ValueError".
Proof.
  split; [split; [exact hv_eqb_refl|split; [exact hv_eqb_sym|exact hv_eqb_trans]]|].
  split; [vm_compute; reflexivity|]. split; [vm_compute; reflexivity|]. split; [vm_compute; reflexivity|].
  split; [|vm_compute; reflexivity].
  split.
  { exists (fun k => if String.eqb k "c" then 2 else if String.eqb k "b" then 1 else 0).
    intros kc d [<-|[<-|[]]]; simpl; intros [<-|H]; try (destruct H as [<-|[]]); simpl; intros; try tauto; try lia;
      repeat constructor. }
  split.
  { intros kc d [<-|[<-|[]]]; simpl; intros [<-|H]; try (destruct H as [<-|[]]); simpl; try tauto;
      try (left; discriminate); right; left; simpl; tauto. }
  split; [repeat constructor; simpl; intuition discriminate|].
  split; [split; [reflexivity|simpl; intuition discriminate]|].
  split; vm_compute; reflexivity.
Qed.
