(* C02 — dictable.join is the relational inner / cross join and xor the anti-join; both terminate;
   operands unchanged.  Property theorems only; each is closed by a lemma of proofs/P_join.v.

   The Section states the claims for EVERY key type and EVERY comparison kcmp that has values in
   {-1,0,1}, is antisymmetric and transitive (kcmp a b = 0 is the key equivalence: 1 ~ 1.0, None ~ None,
   NaN ~ NaN), for the model of the repaired code (groups and matches decided by kcmp = 0).  After the
   Section: the concrete cmp on tuples of scalar cells (tcmp) is such a comparison, the table-level
   statements for join_fixed / xor_fixed, and the refutation of the pinned variant (== for matching). *)
From Coq Require Import String.
From Coq Require Import ZArith List Bool Lia Permutation.
From PB Require Import model.M_join proofs.P_join.
Import ListNotations.
Open Scope Z_scope.

Section AnyComparator.
  Variable key : Type.
  Variable kcmp : key -> key -> Z.
  Hypothesis Hrange : forall a b, kcmp a b = -1 \/ kcmp a b = 0 \/ kcmp a b = 1.
  Hypothesis Hanti : forall a b, kcmp b a = - kcmp a b.
  Hypothesis Htrans : forall a b c, kcmp a b <= 0 -> kcmp b c <= 0 -> kcmp a c <= 0.
  Let geq := geq0 key kcmp.

  (* the three nested while loops, one unit of fuel per outer iteration, never run out of fuel
     |L|+|R|+1 on ANY two group lists (sorted or not) and compute the one-step merge *)
  Theorem C02_merge_terminates (L R : list (grp key)) :
    merge key kcmp geq (length L + length R + 1) L R = Some (smerge key kcmp L R).
  Proof. apply (merge_smerge key kcmp Hrange). lia. Qed.

  (* join = relational join: the (left row, right row) index pairs the model emits are a permutation of
     [(i,j) | key_x i ~ key_y j]; each output row is labelled with a key equivalent to both rows' keys *)
  Theorem C02_join_is_relational (lk rk : list key) : exists ts,
    join_triples key kcmp geq lk rk = Some ts /\
    Permutation (map (pair_of key) ts) (spec_pairs key kcmp lk rk) /\
    Forall (fun t => exists a b, nth_error lk (fst (pair_of key t)) = Some a /\ nth_error rk (snd (pair_of key t)) = Some b /\
                                 kcmp a (fst (fst t)) = 0 /\ kcmp b (fst (fst t)) = 0) ts.
  Proof. exact (join_is_relational key kcmp Hrange Hanti Htrans lk rk). Qed.

  (* with no key column all keys are the empty tuple: the relational join is the full cross product *)
  Theorem C02_cross_when_no_key (lk rk : list key) : (forall a b, In a lk -> In b rk -> kcmp a b = 0) ->
    Permutation (spec_pairs key kcmp lk rk) (cross_pairs (length lk) (length rk)).
  Proof. exact (cross_when_keys_equal key kcmp lk rk). Qed.

  (* xor = anti-join: exactly the rows of x whose key matches no row of y (mode 'r': the other way round) *)
  Theorem C02_xor_is_antijoin (lk rk : list key) :
    (exists xs, xor_rows key kcmp geq lk rk = Some xs /\ Permutation xs (spec_anti key kcmp lk rk)) /\
    (exists ys, xor_rows_r key kcmp geq lk rk = Some ys /\ Permutation ys (spec_anti key kcmp rk lk)).
  Proof.
    split; [exact (xor_is_antijoin key kcmp Hrange Hanti Htrans lk rk) | exact (xor_r_is_antijoin key kcmp Hrange Hanti Htrans lk rk)].
  Qed.

  (* left join = x*y + x/y: every row index of x occurs exactly once in xor ++ matched, and the matched
     rows are exactly those that occur in some joined pair *)
  Theorem C02_left_join_partition (lk rk : list key) : exists xs ms ps,
    xor_rows key kcmp geq lk rk = Some xs /\ matched_rows key kcmp geq lk rk = Some ms /\
    join_pairs key kcmp geq lk rk = Some ps /\
    Permutation (xs ++ ms) (seq 0 (length lk)) /\ (forall i, In i ms <-> exists j, In (i, j) ps).
  Proof. exact (left_join_partition key kcmp Hrange Hanti Htrans lk rk). Qed.
End AnyComparator.
Print Assumptions C02_merge_terminates.
Print Assumptions C02_join_is_relational.
Print Assumptions C02_cross_when_no_key.
Print Assumptions C02_xor_is_antijoin.
Print Assumptions C02_left_join_partition.

(* cmp on tuples of None / int / float (1 ~ 1.0) / NaN / str / datetime is such a comparator *)
Theorem C02_cmp_is_total_preorder :
  (forall a b, tcmp a b = -1 \/ tcmp a b = 0 \/ tcmp a b = 1) /\ (forall a b, tcmp b a = - tcmp a b) /\
  (forall a b c, tcmp a b <= 0 -> tcmp b c <= 0 -> tcmp a c <= 0).
Proof. exact (conj tcmp_range (conj tcmp_anti tcmp_trans)). Qed.
Print Assumptions C02_cmp_is_total_preorder.

Theorem C02_int_float_None_NaN_keys i j x :
  tcmp [CNum false x] [CNum true x] = 0 /\ tcmp [CNone] [CNone] = 0 /\ tcmp [CNaN i] [CNaN j] = 0 /\
  tcmp [CNone] [CNum false x] = -1 /\ tcmp [CNum true x] [CNaN i] = -1.
Proof. unfold tcmp, cmparr, ccmp, zcmp; simpl. rewrite !Z.ltb_irrefl. simpl. auto. Qed.
Print Assumptions C02_int_float_None_NaN_keys.

(* ints keep their exact value: adjacent huge ints are different keys, 2**53 still equals float(2**53) *)
Theorem C02_huge_int_keys x y f g : x <> y -> tcmp [CNum f x] [CNum g y] <> 0 /\ tcmp [CNum false x] [CNum true x] = 0.
Proof.
  intros H. unfold tcmp, cmparr, ccmp, zcmp; simpl. rewrite Z.ltb_irrefl. simpl.
  destruct (Z.ltb_spec x y), (Z.ltb_spec y x); simpl; split; auto; try discriminate; lia.
Qed.
Print Assumptions C02_huge_int_keys.

(* infinities (fix c3b94bc in /repo): -inf < every finite number < +inf < NaN; an infinity is equal only to the infinity of its sign *)
Theorem C02_inf_keys f x i :
  tcmp [CInf true] [CNum f x] = -1 /\ tcmp [CNum f x] [CInf false] = -1 /\ tcmp [CInf false] [CNaN i] = -1 /\
  tcmp [CInf true] [CInf false] = -1 /\ tcmp [CInf true] [CInf true] = 0 /\ tcmp [CInf false] [CInf false] = 0.
Proof. unfold tcmp, cmparr, ccmp, zcmp; simpl. auto 10. Qed.
Print Assumptions C02_inf_keys.

(* table level, repaired code (every spelling of lcols / rcols, every mode): with >= 1 key column the
   result is Ok, its rows are out_row of a permutation of the relational pairs; with none, the cross product *)
Theorem C02_join_table_is_relational x y lc rc m cols lcs rcs :
  let l1 := resolve_l x y lc in let r1 := resolve_r l1 rc in
  length l1 = length r1 -> key_names l1 r1 = Some cols -> cols <> [] ->
  eval_items x l1 = Some lcs -> eval_items y r1 = Some rcs ->
  let lk := row_keys (nrows x) lcs in let rk := row_keys (nrows y) rcs in
  exists ts, join_fixed x y lc rc m = Ok (out_names x y cols, map (out_row x y m cols) ts) /\
    Permutation (map (pair_of (list cell)) ts) (spec_pairs (list cell) tcmp lk rk) /\
    Forall (fun t => exists a b, nth_error lk (fst (pair_of _ t)) = Some a /\ nth_error rk (snd (pair_of _ t)) = Some b /\
                                 tcmp a (fst (fst t)) = 0 /\ tcmp b (fst (fst t)) = 0) ts.
Proof. exact (join_fixed_rows x y lc rc m cols lcs rcs). Qed.
Print Assumptions C02_join_table_is_relational.

(* each output row carries the key, every other column of both sides, and the same-named non-key columns
   combined as the mode prescribes (None: the pair, l / 0: left, r / 1: right, callable: its value) *)
Theorem C02_row_carries_columns x y m cols k i j :
  (forall n c, In (n, c) (combine cols k) -> In (n, OC c) (out_row x y m cols (k, i, j))) /\
  (forall n, In n (lkeys_of x y cols) -> In (n, OC (cellat x n i)) (out_row x y m cols (k, i, j))) /\
  (forall n, In n (rkeys_of x y cols) -> In (n, OC (cellat y n j)) (out_row x y m cols (k, i, j))) /\
  (forall n, In n (jkeys_of x y cols) -> In (n, apply_mode m (cellat x n i) (cellat y n j)) (out_row x y m cols (k, i, j))) /\
  (length k = length cols -> map fst (out_row x y m cols (k, i, j)) = out_names x y cols).
Proof. exact (out_row_columns x y m cols k i j). Qed.
Print Assumptions C02_row_carries_columns.

Theorem C02_join_table_cross x y lc rc m :
  let l1 := resolve_l x y lc in let r1 := resolve_r l1 rc in
  length l1 = length r1 -> key_names l1 r1 = Some [] ->
  join_fixed x y lc rc m =
  Ok (out_names x y [], map (out_row x y m []) (map (fun p => ([], fst p, snd p)) (cross_pairs (nrows x) (nrows y)))).
Proof. exact (join_fixed_cross x y lc rc m). Qed.
Print Assumptions C02_join_table_cross.

Theorem C02_xor_table_is_antijoin x y lc rc lcs rcs :
  let l1 := resolve_l x y lc in let r1 := resolve_r l1 rc in
  length l1 = length r1 -> l1 <> [] ->
  eval_items x l1 = Some lcs -> eval_items y r1 = Some rcs ->
  let lk := row_keys (nrows x) lcs in let rk := row_keys (nrows y) rcs in
  (exists xs, xor_fixed x y lc rc false = Ok (take_rows x xs) /\ Permutation xs (spec_anti (list cell) tcmp lk rk)) /\
  (exists ys, xor_fixed x y lc rc true = Ok (take_rows y ys) /\ Permutation ys (spec_anti (list cell) tcmp rk lk)).
Proof. exact (xor_fixed_rows x y lc rc lcs rcs). Qed.
Print Assumptions C02_xor_table_is_antijoin.

(* both calls terminate on every input: the model of the repaired code never runs out of fuel *)
Theorem C02_tables_terminate x y lc rc m r :
  join_fixed x y lc rc m <> Err "Timeout"%string /\ xor_fixed x y lc rc r <> Err "Timeout"%string.
Proof. exact (fixed_never_times_out x y lc rc m r). Qed.
Print Assumptions C02_tables_terminate.

(* operands unchanged: in the model a call is a function of the two tables and hands them back as they
   were (there is no operand-writing step to model); on the real objects this is what the oracle checks
   cell by cell (identity) after every call *)
Theorem C02_operands_unchanged geq s lc rc m r :
  fst (join_st geq s lc rc m) = s /\ fst (xor_st geq s lc rc r) = s.
Proof. split; [apply join_st_operands | apply xor_st_operands]. Qed.
Print Assumptions C02_operands_unchanged.

(* the pinned tree (groups matched with ==, cursors moved by cmp): two distinct NaN objects stall the
   merge for every amount of fuel — the finding replayed on the implementation by corpus/C02 *)
Theorem C02_pinned_refuted :
  (forall fuel, merge (list cell) tcmp py_eq_key fuel nanL nanR = None) /\
  listby (list cell) tcmp py_eq_key [[CNaN 1]] = nanL /\ listby (list cell) tcmp py_eq_key [[CNaN 2]] = nanR /\
  join_pinned [("a"%string, [CNaN 1; CNum false 2])] [("a"%string, [CNaN 2; CNum false 2])] (SOne (KCol "a"%string)) SNone MNone = Err "Timeout"%string.
Proof.
  split; [exact pinned_merge_spins|]. split; [reflexivity|]. split; [reflexivity | exact (proj1 pinned_join_times_out)].
Qed.
Print Assumptions C02_pinned_refuted.


(* KNOWN FINDING (KNOWN_FINDINGS.json, predicate c02_xor_no_key_is_copy): with NO key column xor returns a copy
   of x whatever y holds (pinned by tests/test_dictable.py::test_dictable_xor_no_rhs), although by the letter
   the empty key of every row of x matches every row of y, i.e. the anti-join is empty as soon as y has a row.
   The model follows the code; the anti-join theorem above is therefore stated for >= 1 key column. *)
Theorem C02_xor_no_key_refuted :
  (forall x y r, xor_fixed x y (SList []) SNone r = Ok (take_rows x (seq 0 (nrows x)))) /\
  (let x := [("a"%string, [CNum false 2; CNum false 4])] in let y := [("c"%string, [CNum false 6])] in
   xor_fixed x y SNone SNone false = Ok (take_rows x [0; 1]%nat) /\
   spec_anti (list cell) tcmp (row_keys (nrows x) []) (row_keys (nrows y) []) = []).
Proof. split; [reflexivity | vm_compute; auto]. Qed.
Print Assumptions C02_xor_no_key_refuted.

(* the hypotheses are satisfiable and the statements non-vacuous: a many-to-many join with 1 ~ 1.0, None and NaN keys *)
Example C02_example :
  let lk := [[CNum false 2]; [CNaN 1]; [CNum true 2]; [CNone]; [CStr [97]]] in
  let rk := [[CNum true 2]; [CNaN 2]; [CNaN 3]; [CNum false 2]; [CDate 5]] in
  option_map (map (pair_of _)) (join_triples (list cell) tcmp tkeq lk rk)
    = Some [(0, 0); (0, 3); (2, 0); (2, 3); (1, 1); (1, 2)]%nat /\
  xor_rows (list cell) tcmp tkeq lk rk = Some [3; 4]%nat /\
  spec_pairs (list cell) tcmp lk rk = [(0, 0); (0, 3); (1, 1); (1, 2); (2, 0); (2, 3)]%nat.
Proof. vm_compute. auto. Qed.
