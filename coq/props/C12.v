(* C12 — df_fillna / nona fill or drop exactly the missing cells, arrays and pandas alike.
   Property theorems only; each is closed by lemmas of proofs/P_fill.v about model/M_fill.v.
   Cells are `option val` with val = Fin z | PInf | NInf: None = NaN, and +inf / -inf are ordinary non-NaN
   values (every `x : val` below ranges over them too).  Vectors are lists of cells, frames are row-major lists of labelled rows,
   of any length and any NaN pattern; `lim : option nat` is the limit (None = unbounded);
   positions are list indices, so "distance" is a difference of positions. *)
From Coq Require Import ZArith List Bool Arith Lia.
From PB Require Import model.M_fill proofs.P_fill.
Import ListNotations.

(* df_fillna never changes a non-NaN cell, whatever the method list: the result is obtained from the
   input by dropping rows and filling NaN cells only (labels, order and width kept) *)
Theorem C12_non_nan_unchanged k lim ms lf : wf k (map snd lf) ->
  sub_ext lf (fill k lim ms lf) /\
  (forall t r', In (t, r') (fill k lim ms lf) ->
     exists r, In (t, r) lf /\ length r' = length r /\
               forall j x, nth_error r j = Some (Some x) -> nth_error r' j = Some (Some x)).
Proof.
  intros W. pose proof (fill_sub_ext k lim ms lf W) as H. split; [exact H|].
  intros t r' Hin. destruct (sub_ext_in _ _ H t r' Hin) as [r [H1 H2]]. exists r.
  split; [exact H1|]. split; [exact (row_ext_length _ _ H2)|]. intros j x. exact (row_ext_cell r r' j x H2).
Qed.
Print Assumptions C12_non_nan_unchanged.

(* ffill: a NaN at position i whose nearest earlier observation is x at position p is replaced by x
   iff i - p <= limit; a NaN with no earlier observation stays NaN.  bfill: symmetric. *)
Theorem C12_ffill_limit_exact lim v i : nan_at v i ->
  (forall p x, p < i -> obs_at v p x -> (forall q, p < q < i -> nan_at v q) ->
     nth_error (ffill lim v) i = Some (if within lim (i - p) then Some x else None))
  /\ ((forall q, q < i -> nan_at v q) -> nth_error (ffill lim v) i = Some None).
Proof. exact (ffill_limit_exact lim v i). Qed.
Print Assumptions C12_ffill_limit_exact.

Theorem C12_bfill_limit_exact lim v i : nan_at v i ->
  (forall p x, i < p -> obs_at v p x -> (forall q, i < q < p -> nan_at v q) ->
     nth_error (bfill lim v) i = Some (if within lim (p - i) then Some x else None))
  /\ ((forall q, i < q < length v -> nan_at v q) -> nth_error (bfill lim v) i = Some None).
Proof. exact (bfill_limit_exact lim v i). Qed.
Print Assumptions C12_bfill_limit_exact.

(* a number as method: every NaN becomes that constant (with a limit: the first `limit` NaNs of the column) *)
Theorem C12_const c v :
  cfill None c v = map (fun x => match x with None => Some c | s => s end) v /\
  (forall lim i, nan_at v i ->
     nth_error (cfill lim c v) i = Some (if within lim (S (count_nan (firstn i v))) then Some c else None)).
Proof. split; [apply cfill_from_unbounded | intros lim i; exact (cfill_exact lim c v i)]. Qed.
Print Assumptions C12_const.

(* a list of methods applies them in sequence *)
Theorem C12_methods_compose k lim ms1 ms2 m lf :
  fill k lim (ms1 ++ ms2) lf = fill k lim ms2 (fill k lim ms1 lf) /\
  fill k lim (m :: ms2) lf = fill k lim ms2 (fill k lim [m] lf) /\ fill k lim [] lf = lf.
Proof. split; [apply fill_app | split; reflexivity]. Qed.
Print Assumptions C12_methods_compose.

(* in a frame every column is filled as a vector, labels untouched *)
Theorem C12_frame_columnwise k lim m f lf j : vec_op lim m = Some f -> j < k ->
  col j (map snd (fill k lim [m] lf)) = f (col j (map snd lf)) /\ map fst (fill k lim [m] lf) = map fst lf.
Proof. exact (fill1_columnwise k lim m f lf j). Qed.
Print Assumptions C12_frame_columnwise.

(* 'nona' removes exactly the rows that are entirely NaN (order kept) *)
Theorem C12_nona_exactly_all_nan_rows k lim lf :
  fill k lim [MNona] lf = filter (fun p => negb (all_nan (snd p))) lf /\
  (forall t r, In (t, r) (fill k lim [MNona] lf) <-> In (t, r) lf /\ all_nan r = false).
Proof.
  split; [reflexivity|]. intros t r. cbn [fill fold_left fill1 vec_op]. rewrite filter_In. cbn [snd].
  rewrite negb_true_iff. reflexivity.
Qed.
Print Assumptions C12_nona_exactly_all_nan_rows.

(* 'fnna' removes only the leading all-NaN rows *)
Theorem C12_fnna_leading_only k lim lf :
  exists pre, lf = pre ++ fill k lim [MFnna] lf /\ Forall (fun p => all_nan (snd p) = true) pre /\
              (forall p rest, fill k lim [MFnna] lf = p :: rest -> all_nan (snd p) = false).
Proof. exact (dropwhile_spec (fun p => all_nan (snd p)) lf). Qed.
Print Assumptions C12_fnna_leading_only.

(* 'ffill_na' / 'ffill_0': forward fill up to the last valid observation, then NaN / 0;
   a column without any observation is left as it is *)
Theorem C12_ffill_na_0_tail lim body x tail v : all_none tail -> all_none v ->
  ffill_tail lim None (body ++ Some x :: tail) = ffill lim (body ++ [Some x]) ++ repeat None (length tail) /\
  ffill_tail lim (Some (Fin 0)) (body ++ Some x :: tail) = ffill lim (body ++ [Some x]) ++ repeat (Some (Fin 0)) (length tail) /\
  ffill_tail lim None v = v /\ ffill_tail lim (Some (Fin 0)) v = v /\
  vec_op lim MFfillNa = Some (ffill_tail lim None) /\ vec_op lim MFfill0 = Some (ffill_tail lim (Some (Fin 0))).
Proof.
  intros Ht Hv. repeat split; auto using ffill_tail_spec, ffill_tail_all_nan.
Qed.
Print Assumptions C12_ffill_na_0_tail.

(* nona(a, value, edge): all masked rows / only the latest / only the historic ones *)
Theorem C12_nona_edge value lf :
  nona_f value EAll lf = filter (fun p => negb (masked value p)) lf /\
  (exists post, lf = nona_f value ELatest lf ++ post /\ Forall (fun p => masked value p = true) post /\
                (forall init a, nona_f value ELatest lf = init ++ [a] -> masked value a = false)) /\
  (exists pre, lf = pre ++ nona_f value EHistoric lf /\ Forall (fun p => masked value p = true) pre /\
               (forall a t, nona_f value EHistoric lf = a :: t -> masked value a = false)).
Proof. split; [reflexivity | split; [apply nona_f_latest_spec | apply nona_f_historic_spec]]. Qed.
Print Assumptions C12_nona_edge.

(* given an ndarray the result equals the values of the result for the Series / DataFrame with the
   same cells, whatever its index labels *)
Theorem C12_array_equals_pandas k lim ms value e lf :
  fill_array k lim ms (map snd lf) = map snd (fill k lim ms lf) /\
  nona_array value e (map snd lf) = map snd (nona_f value e lf).
Proof. split; [apply fill_array_values | apply nona_array_values]. Qed.
Print Assumptions C12_array_equals_pandas.

(* the argument is not modified (the model is a function: by construction; on the real code this is
   what the correspondence re-inspects after every call) *)
Theorem C12_input_unchanged k lim ms value e lf :
  snd (fill_call k lim ms lf) = lf /\ snd (nona_call value e lf) = lf.
Proof. split; reflexivity. Qed.
Print Assumptions C12_input_unchanged.

(* +-inf is not NaN: a row holding an infinite cell is never removed by 'nona' / nona(), and (by
   C12_non_nan_unchanged, whose x ranges over PInf and NInf) no method ever replaces an infinite cell *)
Theorem C12_inf_is_not_nan k lim lf t r j x : (x = PInf \/ x = NInf) ->
  In (t, r) lf -> nth_error r j = Some (Some x) ->
  In (t, r) (fill k lim [MNona] lf) /\ In (t, r) (nona_f None EAll lf) /\
  all_nan r = false.
Proof.
  intros _ Hin Hx. pose proof (all_nan_false r j x Hx) as Hn. repeat split; auto.
  - cbn [fill fold_left fill1 vec_op]. apply filter_In. cbn [snd]. now rewrite Hn.
  - rewrite nona_f_all. apply filter_In. rewrite masked_nan. cbn [snd]. now rewrite Hn.
Qed.
Print Assumptions C12_inf_is_not_nan.

(* the hypotheses are satisfiable on a non-trivial frame: 2 columns, leading / interior / trailing NaN runs, infinite cells *)
Example C12_example :
  let F := fun z => Some (Fin z) in
  let lf := [(10, [None; None]); (11, [F 1; None]); (12, [None; None]); (13, [None; Some PInf]); (14, [None; None]); (15, [Some NInf; None]); (16, [None; None])]%Z in
  wf 2 (map snd lf) /\
  fill 2 (Some 1%nat) [MFfill; MNona] lf = [(11, [F 1; None]); (12, [F 1; None]); (13, [None; Some PInf]); (14, [None; Some PInf]); (15, [Some NInf; None]); (16, [Some NInf; None])]%Z /\
  fill 2 None [MFfill0] lf = [(10, [None; None]); (11, [F 1; None]); (12, [F 1; None]); (13, [F 1; Some PInf]); (14, [F 1; F 0]); (15, [Some NInf; F 0]); (16, [F 0; F 0])]%Z /\
  nona_f None EAll lf = [(11, [F 1; None]); (13, [None; Some PInf]); (15, [Some NInf; None])]%Z.
Proof. split; [repeat constructor | repeat split; vm_compute; reflexivity]. Qed.
