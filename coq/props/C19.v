(* C19 — container lifting maps leaf-wise, preserves shape and container types, matches or
   broadcasts companion arguments, and waiter is schedule independent.
   Property theorems only; each is closed by a lemma of proofs/P_loop.v.
   wrapped f arg pos kw = loop(list, tuple, dict)(f)(arg, *pos, **kw) (M_loop). *)
From Coq Require Import ZArith List Bool Arith Permutation.
From PB Require Import model.M_loop proofs.P_loop.
Import ListNotations.

(* the result has the argument's container skeleton and container types (dict class and key order included) *)
Theorem C19_map_shape f arg pos kw : shaped arg (wrapped f arg pos kw).
Proof. exact (wrapped_shaped f arg pos kw). Qed.
Print Assumptions C19_map_shape.

(* at every path: the result's subtree is the lifted call on the argument's subtree with the
   companions seen at that path; in particular each leaf is f(leaf, companions at the path) *)
Theorem C19_subtree_at_path f p arg pos kw sub : get arg p = Some sub ->
  get (wrapped f arg pos kw) p = Some (wrapped f sub (map (comp_at arg p) pos) (map_kw (comp_at arg p) kw)).
Proof. exact (wrapped_at_path f p arg pos kw sub). Qed.
Print Assumptions C19_subtree_at_path.
Theorem C19_leafwise f p arg pos kw z : get arg p = Some (VLeaf z) ->
  get (wrapped f arg pos kw) p = Some (f (VLeaf z) (map (comp_at arg p) pos) (map_kw (comp_at arg p) kw)).
Proof. intros H. exact (wrapped_at_path f p arg pos kw (VLeaf z) H). Qed.
Print Assumptions C19_leafwise.

(* companions: same lengths / keys all along the path => matched element by element (dicts by key);
   scalars and containers without a sub-container of the matching length / keys => broadcast whole;
   the selection is the same whether the companion is passed positionally or by keyword *)
Theorem C19_companion_matching :
  (forall p arg a, follows arg a p -> get a p = Some (comp_at arg p a)) /\
  (forall z p arg, comp_at arg p (VLeaf z) = VLeaf z) /\
  (forall i n v, plain_i n v = true -> item_by_i v i n = v) /\
  (forall k keys v, plain_k keys v = true -> item_by_key v k keys = v) /\
  (forall g names arg pos kw,
     wrapped (f_named g names) arg pos kw = wrapped (f_named g names) arg [] (combine names pos ++ kw)).
Proof.
  split; [exact comp_at_follows|]. split; [exact comp_at_leaf|]. split; [exact item_by_i_plain|].
  split; [exact item_by_key_plain|exact positional_is_keyword].
Qed.
Print Assumptions C19_companion_matching.
(* ... but a companion of a different length that holds sub-lists of the matching length is NOT broadcast
   (known finding c19_companion_deep_match) *)
Theorem C19_broadcast_refuted :
  exists (l : list val) (i n : nat), length l <> n /\ item_by_i (VList l) i n <> VList l /\
    forall f : leaf_fun, get (wrapped f (VList [VLeaf 1; VLeaf 2]) [VList l] []) [SI i] =
                         Some (f (VLeaf 1) [VList [VLeaf 1; VLeaf 3; VLeaf 5]] []).
Proof. exact broadcast_refuted. Qed.
Print Assumptions C19_broadcast_refuted.

(* zipper raises ValueError iff two lengths differ and neither is 1; otherwise it yields n rows,
   row j taking element j of every length-n sequence and the single element of every scalar /
   length-1 sequence *)
Theorem C19_zipper vs :
  (zipper vs = None <-> exists a b, In a (lengths vs) /\ In b (lengths vs) /\ a <> 1 /\ b <> 1 /\ a <> b) /\
  (forall rows, zipper vs = Some rows -> vs <> [] ->
     exists n, length rows = n /\
       (forall v, In v vs -> length (elems v) = 1 \/ length (elems v) = n) /\
       (n <> 1 -> exists v, In v vs /\ length (elems v) = n) /\
       forall j, j < n -> nth j rows [] = map (pick j) vs).
Proof. split; [exact (zipper_error_iff vs)|exact (zipper_rows vs)]. Qed.
Print Assumptions C19_zipper.

Theorem C19_as_list_idempotent v : as_list (as_list v) = as_list v.
Proof. exact (as_list_idempotent v). Qed.
Print Assumptions C19_as_list_idempotent.
(* partial: as_tuple is idempotent exactly when its result is not a 1-tuple holding a list;
   missing: as_tuple([[1, 2]]) = ([1, 2],) but as_tuple(([1, 2],)) = (1, 2) in the code *)
Theorem C19_as_tuple_idempotent_partial v :
  single_list (as_tuple v) = false -> as_tuple (as_tuple v) = as_tuple v.
Proof. exact (as_tuple_idempotent_unless_single_list v). Qed.
Print Assumptions C19_as_tuple_idempotent_partial.
Theorem C19_as_tuple_idempotent_refuted : exists v, as_tuple (as_tuple v) <> as_tuple v.
Proof. exact as_tuple_not_idempotent. Qed.
Print Assumptions C19_as_tuple_idempotent_refuted.

(* waiter bookkeeping: for every order of completion that covers the awaitables - in particular
   any two permutations of each other - the final structure is the same and equals the structure
   with each awaitable replaced by its result; before the last completion waiter has not returned *)
Theorem C19_waiter_schedule_independent res w order1 order2 :
  Permutation order1 order2 -> (forall i, In i (awaits w) -> In i order1) ->
  collect (run_schedule (events res order1)) w = Some (subst res w) /\
  collect (run_schedule (events res order2)) w = Some (subst res w).
Proof. exact (waiter_schedule_independent res w order1 order2). Qed.
Print Assumptions C19_waiter_schedule_independent.
Theorem C19_waiter_not_early res w order i : In i (awaits w) -> ~ In i order ->
  collect (run_schedule (events res order)) w = None.
Proof. exact (waiter_pending res order w i). Qed.
Print Assumptions C19_waiter_not_early.

(* non-vacuity: the input on which the pinned tree raises TypeError; a same-shape companion, a
   scalar and a keyword companion; a waiter structure completed in two different orders *)
Example C19_example :
  let arg := VList [VList [VLeaf 1; VLeaf 2]; VList [VLeaf 3; VLeaf 4]] in
  let same := VList [VTuple [VLeaf 5; VLeaf 6]; VTuple [VLeaf 7; VLeaf 8]] in
  let f : leaf_fun := fun x pos kw => VTuple (x :: pos ++ map snd kw) in
  wrapped f arg [VLeaf 10] [] =
    VList [VList [VTuple [VLeaf 1; VLeaf 10]; VTuple [VLeaf 2; VLeaf 10]]; VList [VTuple [VLeaf 3; VLeaf 10]; VTuple [VLeaf 4; VLeaf 10]]] /\
  follows arg same [SI 1; SI 0] /\ comp_at arg [SI 1; SI 0] same = VLeaf 7 /\
  get (wrapped f arg [same] [(0%Z, VLeaf 9)]) [SI 1; SI 0] = Some (VTuple [VLeaf 3; VLeaf 7; VLeaf 9]) /\
  zipper [VList [VLeaf 1; VLeaf 2; VLeaf 3]; VLeaf 4; VTuple [VLeaf 5]] =
    Some [[VLeaf 1; VLeaf 4; VLeaf 5]; [VLeaf 2; VLeaf 4; VLeaf 5]; [VLeaf 3; VLeaf 4; VLeaf 5]] /\
  zipper [VList [VLeaf 1; VLeaf 2; VLeaf 3]; VList [VLeaf 4; VLeaf 5]] = None /\
  let w := WList [WAwait 0; WDict 0 [(7%Z, WAwait 1); (8%Z, WLeaf 5)]; WTuple [WAwait 2]] in
  let res := fun i => VLeaf (Z.of_nat (100 + i)) in
  Permutation [2; 0; 1] [1; 2; 0] /\ (forall i, In i (awaits w) -> In i [2; 0; 1]) /\
  collect (run_schedule (events res [2; 0; 1])) w =
    Some (VList [VLeaf 100; VDict 0 [(7%Z, VLeaf 101); (8%Z, VLeaf 5)]; VTuple [VLeaf 102]]) /\
  collect (run_schedule (events res [2; 0])) w = None.
Proof.
  cbv zeta. repeat split; try (vm_compute; reflexivity).
  - apply (perm_trans (l' := [0; 2; 1])); [apply perm_swap|]. apply (perm_trans (l' := [0; 1; 2])); [apply perm_skip, perm_swap|].
    apply (perm_trans (l' := [1; 0; 2])); [apply perm_swap|]. apply perm_skip, perm_swap.
  - vm_compute. intuition.
Qed.
