(* C17 — bitemporal store: reading as of T sees exactly what had been published by T.
   Property theorems only; each is closed by a lemma of proofs/P_bitemp.v.
   store_of h = the versions of h merged one after the other with bi_merge (M_bitemp). *)
From Coq Require Import ZArith List Bool.
From PB Require Import model.M_bitemp proofs.P_bitemp.
Import ListNotations.
Open Scope Z_scope.

(* merges in non-decreasing stamp order: the as-of-T read lists, in date order, exactly the dates
   published by T, each with the latest value published with stamp <= T (same stamp: the one
   merged last; a NaN never overrides); dates first published after T have no row *)
Theorem C17_read_is_latest h T : stamps_nondecreasing h -> series_ok h ->
  bi_read (store_of h) (Some T) (-1) = spec_read T h.
Proof. intros H1 H2. exact (proj1 (read_is_latest h T H1 H2)). Qed.
Print Assumptions C17_read_is_latest.

(* what "latest" means: the chosen value sits at a publication r with stamp <= T such that every
   publication merged after r (with stamp <= T) is NaN and every one merged before has stamp <= r's *)
Theorem C17_latest_characterised T h d x : stamps_nondecreasing h -> latest_le T h d = Some (Some x) ->
  exists p1 r p2, filter (le_stamp T) (pubs h d) = p1 ++ r :: p2 /\ rv r = Some x /\ rs r <= T /\
    Forall (fun y => rv y = None) p2 /\ Forall (fun y => rs y <= rs r) p1.
Proof. exact (latest_characterised T h d x). Qed.
Print Assumptions C17_latest_characterised.

(* asof=None reads like any T at or after every stamp in the store *)
Theorem C17_read_none_is_latest h T : stamps_nondecreasing h -> series_ok h ->
  Forall (fun v => fst v <= T) h -> bi_read (store_of h) None (-1) = spec_read T h.
Proof. exact (read_none_is_latest h T). Qed.
Print Assumptions C17_read_none_is_latest.

Theorem C17_read_none_first h T : stamps_nondecreasing h -> series_ok h ->
  Forall (fun v => fst v <= T) h -> bi_read (store_of h) None 0 = spec_first T h.
Proof. exact (read_none_first h T). Qed.
Print Assumptions C17_read_none_first.

(* the same when several consecutive versions are handed to ONE bi_merge call (new_data a list):
   the store reads like the flattened history *)
Theorem C17_batch_merge_reads gs T : Forall (fun g => g <> []) gs ->
  stamps_nondecreasing (concat gs) -> series_ok (concat gs) ->
  bi_read (store_of_groups gs) (Some T) (-1) = spec_read T (concat gs) /\
  bi_read (store_of_groups gs) (Some T) 0 = spec_first T (concat gs).
Proof. exact (groups_read_is_latest gs T). Qed.
Print Assumptions C17_batch_merge_reads.

(* no look-ahead: versions stamped after T cannot change an as-of-T read *)
Theorem C17_no_lookahead h T : stamps_nondecreasing h -> series_ok h ->
  bi_read (store_of h) (Some T) (-1) = bi_read (store_of (hist_le T h)) (Some T) (-1) /\
  bi_read (store_of h) (Some T) 0 = bi_read (store_of (hist_le T h)) (Some T) 0.
Proof. exact (no_lookahead h T). Qed.
Print Assumptions C17_no_lookahead.

(* what=0: the first value published per date (the value as of the date's first stamp) *)
Theorem C17_what0_first h T : stamps_nondecreasing h -> series_ok h ->
  bi_read (store_of h) (Some T) 0 = spec_first T h.
Proof. intros H1 H2. exact (proj2 (read_is_latest h T H1 H2)). Qed.
Print Assumptions C17_what0_first.

(* merging a version whose rows are all in the store leaves every as-of read unchanged *)
Theorem C17_merge_idempotent_reads h v T : stamps_nondecreasing h -> series_ok h -> NoDup (map fst (snd v)) ->
  (forall r, In r (Bi v) -> In r (store_of h)) ->
  bi_read (bi_merge (store_of h) (Bi v)) (Some T) (-1) = bi_read (store_of h) (Some T) (-1) /\
  bi_read (bi_merge (store_of h) (Bi v)) (Some T) 0 = bi_read (store_of h) (Some T) 0.
Proof. exact (remerge_reads h v T). Qed.
Print Assumptions C17_merge_idempotent_reads.

(* ... and so does merging the most recent version once more (whether or not its rows survived) *)
Theorem C17_remerge_last_reads h v T : stamps_nondecreasing (h ++ [v]) -> series_ok (h ++ [v]) ->
  bi_read (bi_merge (store_of (h ++ [v])) (Bi v)) (Some T) (-1) = bi_read (store_of (h ++ [v])) (Some T) (-1) /\
  bi_read (bi_merge (store_of (h ++ [v])) (Bi v)) (Some T) 0 = bi_read (store_of (h ++ [v])) (Some T) 0.
Proof. exact (remerge_last h v T). Qed.
Print Assumptions C17_remerge_last_reads.

(* the invariant the induction over the history maintains: per date, stamps strictly increasing,
   NaN only before the first value, and the column reads like the publication list *)
Theorem C17_store_invariant h : stamps_nondecreasing h -> series_ok h ->
  forall d, colinv (col d (store_of h)) /\ same_reads (col d (store_of h)) (pubs h d).
Proof. intros H1 H2. exact (proj1 (store_invariant h H1 H2)). Qed.
Print Assumptions C17_store_invariant.

(* non-vacuity: s2:3, s3:2, s3:3 (the history on which the pinned tree returns 2), a NaN that does
   not override, a reversion, a date first published late *)
Example C17_example :
  let h : list version := [(2, [(0, Some 3); (1, Some 1)]); (3, [(0, Some 2); (1, None)]);
                           (3, [(0, Some 3); (2, Some 7)]); (4, [(1, Some 1); (2, None)])] in
  stamps_nondecreasing h /\ series_ok h /\
  bi_read (store_of h) (Some 3) (-1) = [(0, Some 3); (1, Some 1); (2, Some 7)] /\
  bi_read (store_of h) (Some 2) (-1) = [(0, Some 3); (1, Some 1)] /\
  bi_read (store_of h) (Some 1) (-1) = [] /\
  bi_read (store_of h) (Some 4) 0 = [(0, Some 3); (1, Some 1); (2, Some 7)] /\
  spec_read 3 h = [(0, Some 3); (1, Some 1); (2, Some 7)] /\
  (forall r, In r (Bi (2, [(0, Some 3)])) -> In r (store_of h)).
Proof.
  cbv zeta. split; [|split].
  - simpl. repeat split; repeat constructor; simpl; try discriminate.
  - repeat constructor; simpl; intuition discriminate.
  - repeat split; try (vm_compute; reflexivity). vm_compute. intros r [<-|[]]. auto.
Qed.
