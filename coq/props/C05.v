(* C05 — Calendar business-day arithmetic agrees with day-by-day counting.
   Every theorem quantifies over an ARBITRARY holiday predicate hol, weekend predicate wk (on weekday
   numbers), month function and range [t0, t1]; T is the table built by _populate; `cnt P a b` is the
   day-by-day count of days d in [a, b) with P d; fuel bounds the (unbounded) Python loops. *)
From Coq Require Import ZArith List Bool Lia Sorted.
From PB Require Import model.M_cal model.M_bdays proofs.P_bdays proofs.P_bdays_gen.
From PB Require gen.Gen_drange.
Import ListNotations.
Open Scope Z_scope.

Theorem C05_is_bday_iff hol wk d :
  (is_bday hol wk d = true <-> (weekend wk d = false /\ hol d = false)) /\
  is_bday hol wk d = negb (is_holiday hol wk d).
Proof. split; [exact (is_bday_iff hol wk d) | exact (is_bday_not_holiday hol wk d)]. Qed.
Print Assumptions C05_is_bday_iff.

(* adjust 'f' = the least business day >= t, provided one exists up to t1 (b is that witness) *)
Theorem C05_adjust_f_least hol wk t1 fuel t b r :
  t <= b <= t1 -> is_bday hol wk b = true -> adjust_f hol wk t1 fuel t = Some r ->
  t <= r <= b /\ is_bday hol wk r = true /\ forall d, t <= d < r -> is_bday hol wk d = false.
Proof. exact (adjust_f_least hol wk t1 fuel t b r). Qed.
Print Assumptions C05_adjust_f_least.
Theorem C05_adjust_p_greatest hol wk t0 fuel t b r :
  t0 <= b <= t -> is_bday hol wk b = true -> adjust_p hol wk t0 fuel t = Some r ->
  b <= r <= t /\ is_bday hol wk r = true /\ forall d, r < d <= t -> is_bday hol wk d = false.
Proof. exact (adjust_p_greatest hol wk t0 fuel t b r). Qed.
Print Assumptions C05_adjust_p_greatest.
(* ... and the loops finish within (distance to that business day) + 1 iterations *)
Theorem C05_adjust_terminates hol wk t0 t1 fuel t b : is_bday hol wk b = true ->
  (t <= b <= t1 -> b - t < Z.of_nat fuel -> exists r, adjust_f hol wk t1 fuel t = Some r) /\
  (t0 <= b <= t -> t - b < Z.of_nat fuel -> exists r, adjust_p hol wk t0 fuel t = Some r).
Proof.
  intros Bb. split; intros R Fu.
  - exact (adjust_f_total hol wk t1 fuel t b R Bb Fu).
  - exact (adjust_p_total hol wk t0 fuel t b R Bb Fu).
Qed.
Print Assumptions C05_adjust_terminates.
(* 'm' = 'f' unless that leaves t's month, then 'p' *)
Theorem C05_adjust_m hol wk month t0 t1 fuel t rf : adjust_f hol wk t1 fuel t = Some rf ->
  adjust_m hol wk month t0 t1 fuel t = if month rf =? month t then Some rf else adjust_p hol wk t0 fuel t.
Proof. exact (adjust_m_spec hol wk month t0 t1 fuel t rf). Qed.
Print Assumptions C05_adjust_m.
Theorem C05_adjust_m_full hol wk month t0 t1 fuel t b r :
  t <= b <= t1 -> is_bday hol wk b = true -> adjust_m hol wk month t0 t1 fuel t = Some r ->
  exists rf, (t <= rf <= b /\ is_bday hol wk rf = true /\ forall d, t <= d < rf -> is_bday hol wk d = false) /\
             ((month rf = month t /\ r = rf) \/ (month rf <> month t /\ adjust_p hol wk t0 fuel t = Some r)).
Proof. exact (adjust_m_full hol wk month t0 t1 fuel t b r). Qed.
Print Assumptions C05_adjust_m_full.

(* an adjustment that lands inside [t0, t1] is a business day, whatever the convention (so a result inside the
   calendar that is not one -- or exists although no business day exists on that side -- is a defect) *)
Theorem C05_adjust_in_range_is_bday hol wk month t0 t1 fuel a t s :
  adjust hol wk month t0 t1 fuel a t = Some s -> t0 <= s <= t1 -> is_bday hol wk s = true.
Proof. intros E R. apply bday_holiday_false. exact (adjust_in_range hol wk month t0 t1 fuel a t s E R). Qed.
Print Assumptions C05_adjust_in_range_is_bday.

(* core list lemma: dt2int x = number of business days in [t0, x); int2dt is its inverse; the table
   successor is the least larger business day *)
Theorem C05_table_index_is_count hol wk t0 t1 x i :
  let T := populate hol wk t0 t1 in
  (dt2int T x = Some i <-> (t0 <= x <= t1 /\ is_bday hol wk x = true /\ i = cnt (is_bday hol wk) t0 x)) /\
  (int2dt T i = Some x <-> dt2int T x = Some i).
Proof. split; [exact (dt2int_char hol wk t0 t1 x i) | exact (int2dt_dt2int hol wk t0 t1 i x)]. Qed.
Print Assumptions C05_table_index_is_count.
Theorem C05_table_successor_is_next hol wk t0 t1 i x y :
  let T := populate hol wk t0 t1 in
  int2dt T i = Some x -> int2dt T (i + 1) = Some y ->
  x < y /\ is_bday hol wk y = true /\ forall d, x < d < y -> is_bday hol wk d = false.
Proof. exact (table_successor hol wk t0 t1 i x y). Qed.
Print Assumptions C05_table_successor_is_next.

(* add, table path (|n| > 1): the result is the n-th business day counted from s = adjust t, both inside
   the calendar; conversely the n-th business day is found whenever it and s are inside the calendar
   (so KeyError happens exactly when the arithmetic leaves [t0, t1]); "the n-th business day" is unique *)
Theorem C05_add_is_nth hol wk month t0 t1 fuel a t n s r :
  let T := populate hol wk t0 t1 in
  1 < Z.abs n -> adjust hol wk month t0 t1 fuel a t = Some s ->
  (add hol wk month t0 t1 T fuel a t n = Ok r ->
     (t0 <= s <= t1 /\ is_bday hol wk s = true) /\ (t0 <= r <= t1 /\ is_bday hol wk r = true) /\ nth_bday hol wk s n r) /\
  (t0 <= s <= t1 -> t0 <= r <= t1 -> nth_bday hol wk s n r -> add hol wk month t0 t1 T fuel a t n = Ok r) /\
  (forall r', nth_bday hol wk s n r -> nth_bday hol wk s n r' -> r = r').
Proof.
  intros T N As. split; [|split].
  - exact (add_table_is_nth hol wk month t0 t1 fuel a t n s r N As).
  - exact (add_table_complete hol wk month t0 t1 fuel a t n s r N As).
  - intros r'. apply nth_bday_unique.
Qed.
Print Assumptions C05_add_is_nth.
(* add, loop path (|n| <= 1) *)
Theorem C05_add_loop_is_nth hol wk month t0 t1 fuel a t n s r :
  Z.abs n <= 1 -> adjust hol wk month t0 t1 fuel a t = Some s ->
  add hol wk month t0 t1 (populate hol wk t0 t1) fuel a t n = Ok r ->
  nth_bday hol wk s n r /\ is_holiday hol wk r = false.
Proof. exact (add_loop_is_nth hol wk month t0 t1 fuel a t n s r). Qed.
Print Assumptions C05_add_loop_is_nth.
(* exact termination condition of the unbounded loop `while self.is_holiday(res): res += increment`
   (n = 0: it terminates iff the adjusted date is not a holiday) *)
Theorem C05_add_loop_terminates_iff hol wk n x :
  (exists fuel r, add_loop hol wk fuel n x = Some r) <-> (exists k : nat, is_holiday hol wk (x + n * Z.of_nat k) = false).
Proof. exact (add_loop_terminates_iff hol wk n x). Qed.
Print Assumptions C05_add_loop_terminates_iff.

Theorem C05_paths_agree hol wk month t0 t1 fuel a t r2 :
  let T := populate hol wk t0 t1 in
  t1 - t0 + 2 <= Z.of_nat fuel -> add hol wk month t0 t1 T fuel a t 2 = Ok r2 ->
  exists r1, add hol wk month t0 t1 T fuel a t 1 = Ok r1 /\ add hol wk month t0 t1 T fuel a r1 1 = Ok r2.
Proof. exact (paths_agree hol wk month t0 t1 fuel a t r2). Qed.
Print Assumptions C05_paths_agree.

Theorem C05_bdays_add hol wk month t0 t1 fuel a t n s r :
  let T := populate hol wk t0 t1 in
  adjust hol wk month t0 t1 fuel a t = Some s -> t0 <= s <= t1 ->
  add hol wk month t0 t1 T fuel a t n = Ok r -> t0 <= r <= t1 ->
  bdays hol wk month t0 t1 T fuel a t r = Ok n.
Proof. exact (bdays_add hol wk month t0 t1 fuel a t n s r). Qed.
Print Assumptions C05_bdays_add.

Theorem C05_add_inverse hol wk month t0 t1 fuel a t n r :
  let T := populate hol wk t0 t1 in
  is_bday hol wk t = true -> t0 <= t <= t1 ->
  add hol wk month t0 t1 T fuel a t n = Ok r -> add hol wk month t0 t1 T fuel a r (- n) = Ok t.
Proof. exact (add_inverse hol wk month t0 t1 fuel a t n r). Qed.
Print Assumptions C05_add_inverse.

(* general bdays(x, y) = signed day-by-day count between the adjusted dates; clock = count from t0;
   a b-period string bump 'nb' is add(t, n) (compound strings chain it; '+0b' / '-0b' adjust f / p first) *)
Theorem C05_bdays_is_count hol wk month t0 t1 fuel a x y sx sy n :
  adjust hol wk month t0 t1 fuel a x = Some sx -> adjust hol wk month t0 t1 fuel a y = Some sy ->
  bdays hol wk month t0 t1 (populate hol wk t0 t1) fuel a x y = Ok n ->
  (t0 <= sx <= t1 /\ is_bday hol wk sx = true) /\ (t0 <= sy <= t1 /\ is_bday hol wk sy = true) /\
  n = cnt (is_bday hol wk) t0 sy - cnt (is_bday hol wk) t0 sx /\
  (sx <= sy -> n = cnt (is_bday hol wk) (sx + 1) (sy + 1)) /\ (sy <= sx -> n = - cnt (is_bday hol wk) (sy + 1) (sx + 1)).
Proof. exact (bdays_is_count hol wk month t0 t1 fuel a x y sx sy n). Qed.
Print Assumptions C05_bdays_is_count.
Theorem C05_clock_is_count hol wk month t0 t1 fuel a t s i :
  adjust hol wk month t0 t1 fuel a t = Some s ->
  (clock hol wk month t0 t1 (populate hol wk t0 t1) fuel a t = Ok i <->
   (t0 <= s <= t1 /\ is_bday hol wk s = true /\ i = cnt (is_bday hol wk) t0 s)).
Proof. exact (clock_is_count hol wk month t0 t1 fuel a t s i). Qed.
Print Assumptions C05_clock_is_count.
Theorem C05_dt_bump_b_is_add hol wk month t0 t1 T fuel a t n :
  dt_bump_b hol wk month t0 t1 T fuel a t [(n, 0)] = add hol wk month t0 t1 T fuel a t n.
Proof. exact (dt_bump_b_single hol wk month t0 t1 T fuel a t n). Qed.
Print Assumptions C05_dt_bump_b_is_add.

Theorem C05_drange_1b hol wk month t0 t1 fuel a x y sx sy l :
  adjust hol wk month t0 t1 fuel a x = Some sx -> adjust hol wk month t0 t1 fuel a y = Some sy ->
  drange_1b hol wk month t0 t1 (populate hol wk t0 t1) fuel a x y = Ok l ->
  l = filter (is_bday hol wk) (rng sx (Z.to_nat (sy + 1 - sx))) /\ StronglySorted Z.lt l /\
  (forall d, In d l <-> sx <= d <= sy /\ is_bday hol wk d = true).
Proof. exact (drange_1b_spec hol wk month t0 t1 fuel a x y sx sy l). Qed.
Print Assumptions C05_drange_1b.

(* registry: after ANY history of calendar(...) calls, calendar(k) returns the arguments of the last
   registration of k (or what the initial state gave); and every call returns what is now registered *)
Theorem C05_registry_args_last_write_wins (V : Type) (default : V) ops st k :
  reg_get default (fst (calendar_calls default st ops)) k =
    match last_put k ops with Some v => v | None => reg_get default st k end.
Proof. exact (registry_last_write_wins V default ops st k). Qed.
Print Assumptions C05_registry_args_last_write_wins.
Theorem C05_registry_call_returns_registered (V : Type) (default : V) st k arg :
  snd (calendar_call default st k arg) = reg_get default (fst (calendar_call default st k arg)) k.
Proof. exact (call_returns_registered V default st k arg). Qed.
Print Assumptions C05_registry_call_returns_registered.

(* registry WITH the lazily populated tables of the registered objects (state: key -> (arguments, cached tables)):
   after ANY history of registrations by key or through a fetched object, fetches and table-path uses
   (add |n|>1, bdays, drange 'b'), from a state whose caches are coherent (e.g. the empty registry):
   calendar(k) carries the arguments last registered for k (spec_run: the registrations alone) and its table-path
   methods read the table built from exactly those arguments, never one populated for older holidays *)
Theorem C05_registry_last_write_wins (V T : Type) (build : V -> T) (default : V) ops st :
  coherent build st ->
  coherent build (t_run build default ops st) /\
  forall k, t_args default (t_run build default ops st) k = spec_run ops (t_args default st) k /\
            t_table build default (t_run build default ops st) k = build (spec_run ops (t_args default st) k).
Proof. exact (registry_tables_last_write_wins V T build default ops st). Qed.
Print Assumptions C05_registry_last_write_wins.
Example C05_registry_example :
  let v1 : cal_args := ([737784], [5; 6], 737760, 737821) in let v2 : cal_args := ([737790], [5; 6], 737760, 737821) in
  let st := t_run build_args default_args [OCall 7 (Some v1); OUse 7; OCall 7 (Some v2)] [] in
  coherent build_args ([] : registry (tentry cal_args (list Z))) /\
  t_table build_args default_args st 7 = build_args v2 /\ build_args v1 <> build_args v2.
Proof. split; [intros k v t E; discriminate|]. split; [vm_compute; reflexivity | vm_compute; discriminate]. Qed.

(* the Gallina text regenerated from /repo's _drange.py on every run (coq/gen/Gen_drange.v) IS the model:
   is_holiday, is_bday, both loops of adjust 'f' and 'p', the path selector and the |days| <= 1 path of add *)
Theorem C05_generated_code_is_model hol wk t0 t1 fuel t n :
  (Gen_drange.is_holiday hol wk t = is_holiday hol wk t) /\ (Gen_drange.is_bday hol wk t = is_bday hol wk t) /\
  (Gen_drange.adjust_f hol wk t1 fuel t = adjust_f hol wk t1 fuel t) /\
  (Gen_drange.adjust_p hol wk t0 fuel t = adjust_p hol wk t0 fuel t) /\
  (Gen_drange.add_uses_table n = add_uses_table n) /\
  (Gen_drange.add_path hol wk fuel t n = add_loop hol wk fuel n (t + n)).
Proof.
  exact (conj (gen_is_holiday hol wk t) (conj (gen_is_bday hol wk t) (conj (gen_adjust_f hol wk t1 fuel t)
        (conj (gen_adjust_p hol wk t0 fuel t) (conj (gen_add_uses_table n) (gen_add_path hol wk fuel t n)))))).
Qed.
Print Assumptions C05_generated_code_is_model.

(* the hypotheses are satisfiable on a non-trivial calendar: December 2020 .. January 2021, Sat-Sun weekend,
   holidays 25 Dec, 28 Dec (Mon), 31 Dec and 1 Jan: 2020-12-24 (Thu) + 2 business days = 2020-12-30, via
   both paths; 'm' from Thu 31 Dec (holiday) goes back to 30 Dec because 'f' = 4 Jan leaves the month *)
Example C05_example :
  let hol := hol_of [737784; 737787; 737790; 737791] in let wk := wk_of [5; 6] in
  let t0 := 737760 in let t1 := 737821 in let T := populate hol wk t0 t1 in
  let A := add hol wk month_of_ord t0 t1 T 100 in
  A AdjF 737783 2 = Ok 737789 /\ A AdjF 737783 1 = Ok 737788 /\ A AdjF 737788 1 = Ok 737789 /\
  A AdjF 737789 (-2) = Ok 737783 /\ bdays hol wk month_of_ord t0 t1 T 100 AdjF 737783 737789 = Ok 2 /\
  adjust hol wk month_of_ord t0 t1 100 AdjM 737790 = Some 737789 /\
  adjust hol wk month_of_ord t0 t1 100 AdjF 737790 = Some 737794 /\
  drange_1b hol wk month_of_ord t0 t1 T 100 AdjM 737783 737794 = Ok [737783; 737788; 737789; 737794] /\
  A AdjF 737821 5 = KeyError.
Proof. vm_compute. repeat split; reflexivity. Qed.
