(* C18 — decorators are transparent: same results, same signature, no double wrapping.
   Property theorems only; each is closed by a lemma of proofs/P_deco.v about the executable models of
   model/M_deco.v (tied to /repo by the correspondence run). *)
From Coq Require Import List Bool String ZArith Lia.
From PB Require Import model.M_keys model.M_deco proofs.P_keys proofs.P_deco.
Import ListNotations.
Local Open Scope string_scope.

(* getcallargs (the dict-update re-implementation) agrees with inspect.getcallargs on EVERY valid call of
   EVERY signature: same value for every name *)
Theorem C18_getcallargs_agrees V (s : sig V) args kwargs r :
  wf_sig s -> NoDup (map fst kwargs) -> bind s (args, kwargs) = Some r ->
  exists r', lib_getcallargs s (args, kwargs) = LOk r' /\ (forall k, aget k r' = aget k r).
Proof.
  intros H1 H2 H3. destruct (getcallargs_agrees s args kwargs r H1 H2 H3) as [r' [E [L _]]]. eauto.
Qed.
Print Assumptions C18_getcallargs_agrees.

(* call_with_callargs(f, getcallargs(f, ...)) calls f with arguments that bind exactly as the original
   call did, so it returns what f returns *)
Theorem C18_call_with_callargs_roundtrip V (s : sig V) args kwargs r :
  wf_sig s -> NoDup (map fst kwargs) -> bind s (args, kwargs) = Some r ->
  exists r', lib_getcallargs s (args, kwargs) = LOk r' /\ bind s (call_with_callargs s r') = Some r.
Proof. exact (call_with_callargs_roundtrip s args kwargs r). Qed.
Print Assumptions C18_call_with_callargs_roundtrip.

(* wrapping twice with the same decorator equals wrapping once: directly, for every chain; and through
   any chain of other decorators, for every chain the constructor can build *)
Theorem C18_wrap_idempotent t mid s c :
  wrap t (wrap t s) = wrap t s /\
  (built c -> wrap t (wraps mid (wrap t c)) = wrap t (wraps mid c) /\ NoDup (wraps mid (wrap t c))).
Proof.
  split; [apply wrap_idempotent|]. intros H. pose proof (built_NoDup c H) as N. split.
  - apply wrap_through_chain. exact N.
  - apply wraps_NoDup. apply wrap_NoDup. exact N.
Qed.
Print Assumptions C18_wrap_idempotent.

Theorem C18_spec_forwarded V (c : list tag) (s : sig V) : chain_spec c s = s.
Proof. exact (chain_spec_id c s). Qed.
Print Assumptions C18_spec_forwarded.

(* try_*: f's value when f returns, the fallback when (and only because) f raises; never raises *)
Theorem C18_try_fallback_iff_raises V R (inj : V -> R) (v : R) (s : sig V) (f : call V -> lres R) a args kw :
  ((forall r, f (a :: args, kw) = LOk r -> try_value v f (a :: args, kw) = LOk r) /\
   (forall e, f (a :: args, kw) = LErr e -> try_value v f (a :: args, kw) = LOk v) /\
   (forall e, try_value v f (a :: args, kw) <> LErr e)) /\
  ((forall r, f (a :: args, kw) = LOk r -> try_back inj s f (a :: args, kw) = LOk r) /\
   (forall e, f (a :: args, kw) = LErr e -> try_back inj s f (a :: args, kw) = LOk (inj a))).
Proof. split; [apply try_value_spec|apply try_back_spec]. Qed.
Print Assumptions C18_try_fallback_iff_raises.

(* try_value hands out a fresh copy of its fallback: over EVERY history of calls, whatever the caller does to the
   fallbacks it received, every failing call returns the pristine value; without the copy it does not *)
Theorem C18_try_fallback_fresh_copy R (mut : R -> R) (v : R) (outs : list (lres R)) :
  try_hist true mut v outs = map (fun o => match o with LOk r => r | LErr _ => v end) outs.
Proof. exact (try_hist_fresh mut v outs). Qed.
Print Assumptions C18_try_fallback_fresh_copy.
Theorem C18_try_fallback_shared_refuted :
  try_hist false (fun l : list Z => (l ++ [99%Z])%list) [] [LErr "E"; LErr "E"] = [[]; [99%Z]].
Proof. reflexivity. Qed.
Print Assumptions C18_try_fallback_shared_refuted.

(* a stack of any length over {try_*, try_back, kwargs_support, cache, loops, pd2np} returns what f returns on
   every call whose keywords are all declared; a raising f raises the same through a stack without try_* *)
Theorem C18_stack_transparent V R (none : R) (inj : V -> R) pdcall (s : sig V) chain (f : call V -> lres R) c :
  (forall kv, In kv (snd c) -> In (fst kv) (pos s)) -> ~ In "axis" (map fst (snd c)) -> ~ In "self" (map fst (snd c)) ->
  pdcall s c = c ->      (* the first argument is not a pandas object: pd2np hands the call on unchanged, whatever its exc= *)
  (forall r, f c = LOk r -> call_stack none inj pdcall s chain f c = LOk r) /\
  (forall e, f c = LErr e -> ~ In TTry chain -> ~ In TBack chain -> call_stack none inj pdcall s chain f c = LErr e).
Proof.
  intros H1 H2 H3 H4. assert (E : call_stack none inj pdcall s chain f c = apply_chain none inj pdcall s chain f c).
  { unfold call_stack. destruct chain; [reflexivity|]. rewrite (proj2 (inl_false _ _) H3). reflexivity. }
  rewrite E. exact (stack_transparent none inj pdcall s chain f c H1 H2 H4).
Qed.
Print Assumptions C18_stack_transparent.

(* known finding: parameter names that collide with the wrappers' own argument names.  A keyword axis is popped by
   loops (f silently gets its default: a wrong result), a keyword self cannot reach any wrapper's __call__, a keyword
   function cannot reach getcallargs - although each is a valid call of f *)
Theorem C18_reserved_names_refuted :
  let fn := fun (s : sig Z) (c : call Z) => match bind s c with Some r => LOk r | None => LErr "TypeError" end in
  let s1 := {| pos := ["a"; "axis"]; defs := [5%Z]; varargs := false; varkw := false |} in
  let s2 := {| pos := ["a"; "self"]; defs := [5%Z]; varargs := false; varkw := false |} in
  let s3 := {| pos := ["a"; "function"]; defs := [5%Z]; varargs := false; varkw := false |} in
  fn s1 ([1%Z], [("axis", 7%Z)]) = LOk [("a", BV 1%Z); ("axis", BV 7%Z)] /\
  call_stack (R := amap (bval Z)) [] (fun _ => []) (fun _ c => c) s1 [TLoop] (fn s1) ([1%Z], [("axis", 7%Z)]) = LOk [("a", BV 1%Z); ("axis", BV 5%Z)] /\
  (exists r, fn s2 ([1%Z], [("self", 7%Z)]) = LOk r) /\
  call_stack (R := amap (bval Z)) [] (fun _ => []) (fun _ c => c) s2 [TCache] (fn s2) ([1%Z], [("self", 7%Z)]) = LErr "TypeError" /\
  (exists r, bind s3 ([1%Z], [("function", 7%Z)]) = Some r) /\
  lib_getcallargs_py s3 ([1%Z], [("function", 7%Z)]) = LErr "TypeError".
Proof. vm_compute. repeat split; eauto. Qed.
Print Assumptions C18_reserved_names_refuted.

(* without those names the Python entry points are the modelled algorithms *)
Theorem C18_entry_points V R (none : R) (inj : V -> R) pdcall (s : sig V) chain (f : call V -> lres R) c :
  (~ In "function" (map fst (snd c)) -> lib_getcallargs_py s c = lib_getcallargs s c) /\
  (~ In "self" (map fst (snd c)) -> call_stack none inj pdcall s chain f c = apply_chain none inj pdcall s chain f c).
Proof.
  split; intros H.
  - unfold lib_getcallargs_py. rewrite (proj2 (inl_false _ _) H). reflexivity.
  - unfold call_stack. destruct chain; [reflexivity|]. rewrite (proj2 (inl_false _ _) H). reflexivity.
Qed.
Print Assumptions C18_entry_points.

(* kwargs_support(f) for f without **kwargs: f is called without exactly the keywords it does not declare
   (and with the call unchanged when all are declared) *)
Theorem C18_kwargs_support_ignores_exactly_undeclared V R (s : sig V) (f : call V -> lres R) args kw :
  varkw s = false ->
  kwargs_support s f (args, kw) = f (args, named_kw s kw) /\
  (forall kv, In kv (named_kw s kw) <-> In kv kw /\ In (fst kv) (pos s)) /\
  ((forall kv, In kv kw -> In (fst kv) (pos s)) -> kwargs_support s f (args, kw) = f (args, kw)).
Proof. intros _. apply kwargs_support_spec. Qed.
Print Assumptions C18_kwargs_support_ignores_exactly_undeclared.

(* known finding: when f does declare **kwargs the same filter hides keywords f would have received *)
Theorem C18_kwargs_support_varkw_refuted :
  exists (s : sig Z) (c : call Z), varkw s = true /\ bind s c <> None /\
    kwargs_support s (fun c => match bind s c with Some r => LOk r | None => LErr "TypeError" end) c
    <> match bind s c with Some r => LOk r | None => LErr "TypeError" end.
Proof.
  exists {| pos := ["a"]; defs := []; varargs := false; varkw := true |}, ([1%Z], [("zz", 2%Z)]).
  vm_compute. repeat split; congruence.
Qed.
Print Assumptions C18_kwargs_support_varkw_refuted.

(* cache: for EVERY call sequence on a (possibly stateful) non-raising function, the function is
   evaluated exactly once per distinct key, in order of first occurrence; the stored value of a key is
   the result of that evaluation; every return is the stored value, so equal keys give equal returns *)
Theorem C18_cache_once_per_key C K R (key : C -> K) (keqb : K -> K -> bool) (f : nat -> C -> R) (cs : list C) :
  (forall x, keqb x x = true) -> (forall x y, keqb x y = keqb y x) ->
  (forall x y z, keqb x y = true -> keqb y z = true -> keqb x z = true) ->
  let st := crun key keqb f cs in
  map key (trace st) = dedup keqb (map key cs) /\
  NoDupE keqb (map key (trace st)) /\
  (forall n c, nth_error (trace st) n = Some c -> nth_error (store st) n = Some (key c, f n c)) /\
  Forall2 (fun c r => clookup keqb (key c) (store st) = Some r) cs (rets st) /\
  (forall i j ci cj ri rj, nth_error cs i = Some ci -> nth_error cs j = Some cj ->
     nth_error (rets st) i = Some ri -> nth_error (rets st) j = Some rj ->
     keqb (key ci) (key cj) = true -> ri = rj).
Proof. intros H1 H2 H3. exact (cache_once_per_key key keqb f H1 H2 H3 cs). Qed.
Print Assumptions C18_cache_once_per_key.

(* arguments that cannot be hashed (numpy arrays, Series, sets) are evaluated on every call and never stored; when every
   call is hashable this fallback never fires and the statement above applies *)
Theorem C18_cache_unhashable_fallback C K R (key : C -> K) (keqb : K -> K -> bool) (f : nat -> C -> R) hashable (cs : list C) :
  (forall c, In c cs -> hashable c = true) -> crunu key keqb f hashable cs = crun key keqb f cs.
Proof. exact (crunu_hashable key keqb f hashable cs). Qed.
Print Assumptions C18_cache_unhashable_fallback.

(* the pinned _prehash flattens lists and dicts to tuples: distinct arguments as passed share a key;
   the repaired key (container kind kept) separates them and still identifies 1, 1.0 and True *)
Theorem C18_cache_key_pinned_refuted :
  call_key false ([AList [AInt 1]], []) = call_key false ([ATup [AInt 1]], []) /\
  call_key false ([ADict [("x", AInt 1)]], []) = call_key false ([ATup [ATup [AStr "x"; AInt 1]]], []) /\
  call_key true ([AList [AInt 1]], []) <> call_key true ([ATup [AInt 1]], []) /\
  call_key true ([ADict [("x", AInt 1)]], []) <> call_key true ([ATup [ATup [AStr "x"; AInt 1]]], []) /\
  call_key true ([AList [AInt 1]], [("k", ABool true)]) = call_key true ([AList [AFloat 1]], [("k", AInt 1)]).
Proof. vm_compute. repeat split; congruence. Qed.
Print Assumptions C18_cache_key_pinned_refuted.

(* non-vacuity *)
Example C18_example :
  let s := {| pos := ["a"; "b"; "c"]; defs := [100%Z; 101%Z]; varargs := true; varkw := true |} in
  wf_sig s /\
  bind s ([1%Z], [("c", 3%Z); ("zz", 9%Z)]) =
    Some [("a", BV 1%Z); ("b", BV 100%Z); ("c", BV 3%Z); ("args", BT []); ("kw", BD [("zz", 9%Z)])] /\
  bind s ([1%Z], [("a", 3%Z)]) = None /\
  call_with_callargs s [("b", BV 100%Z); ("c", BV 3%Z); ("a", BV 1%Z); ("args", BT [7%Z]); ("kw", BD [("zz", 9%Z)])]
    = ([1%Z; 100%Z; 3%Z; 7%Z], [("zz", 9%Z)]) /\
  built (wraps [TTry; TKws; TCache] []) /\
  wrap TCache (wraps [TTry; TKws; TCache] []) = [TCache; TTry; TKws] /\
  rets (crun (call_key true) lz_eqb (fun n _ => n) [([AList [AInt 1]], []); ([ATup [AInt 1]], []); ([AList [AFloat 1]], [])]) = [0; 1; 0] /\
  (* the concrete key equality used by the correspondence satisfies the hypotheses of C18_cache_once_per_key *)
  ((forall x, lz_eqb x x = true) /\ (forall x y, lz_eqb x y = lz_eqb y x) /\
   (forall x y z, lz_eqb x y = true -> lz_eqb y z = true -> lz_eqb x z = true)).
Proof.
  cbv zeta. split.
  { repeat split; simpl; try lia; try (intuition discriminate). repeat constructor; simpl; intuition discriminate. }
  split; [vm_compute; reflexivity|]. split; [vm_compute; reflexivity|]. split; [vm_compute; reflexivity|].
  split; [repeat constructor|]. split; [vm_compute; reflexivity|]. split; [vm_compute; reflexivity|].
  split; [intros x; apply lz_eqb_eq; reflexivity|]. split.
  - intros x y. destruct (lz_eqb x y) eqn:E1, (lz_eqb y x) eqn:E2; auto.
    + apply lz_eqb_eq in E1. subst. rewrite (proj2 (lz_eqb_eq y y) eq_refl) in E2. discriminate.
    + apply lz_eqb_eq in E2. subst. rewrite (proj2 (lz_eqb_eq x x) eq_refl) in E1. discriminate.
  - intros x y z H1 H2. apply lz_eqb_eq in H1, H2. subst. apply lz_eqb_eq. reflexivity.
Qed.
