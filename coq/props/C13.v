(* C13 — df_slice keeps exactly the rows in the interval; stitching switches at the bounds; df_unslice inverse.
   Property theorems only, closed by lemmas of proofs/P_slice.v about model/M_slice.v.  `day` is the
   length of a day in the unit of the timestamps (any integer; the harness uses hours, day = 24);
   `sorted rows` = strictly increasing timestamps; oc = (left bracket closed?, right bracket closed?). *)
From Coq Require Import ZArith List Bool Arith Lia Sorting.Sorted Sorting.Permutation String.
From PB Require Import model.M_slice proofs.P_slice proofs.P_unslice.
Import ListNotations.
Open Scope Z_scope.

(* a single slice returns exactly the rows with lb < / <= t and t < / <= ub as the brackets prescribe
   (all four combinations: oc ranges over bool * bool), a missing bound being unbounded; whichever of the
   pandas fast path and the mask path the code takes.  No hypothesis on `rows`: the index may be stored in ANY
   order (shuffled, newest first) and may repeat timestamps; the rows come back in their stored order.  (The label
   slice is only taken when the index is in time order - `is_mono` - where it is proved equal to the mask.) *)
Theorem C13_slice_exact {A} day oc lb ub (rows : list (Z * A)) :
  (forall a b, lb = BTod a -> ub = BTod b -> a <= b) ->
  df_slice_one day oc lb ub rows = filter (fun r => in_window day oc lb ub (fst r)) rows /\
  (forall t, in_window day oc lb ub t =
     (match lb with BNone => true | BAt b => if fst oc then b <=? t else b <? t
                  | BTod h => if fst oc then h <=? t mod day else h <? t mod day end) &&
     (match ub with BNone => true | BAt b => if snd oc then t <=? b else t <? b
                  | BTod h => if snd oc then t mod day <=? h else t mod day <? h end)).
Proof. intros H. split; [exact (no_wrap_exact_any day oc lb ub rows H) | reflexivity]. Qed.
Print Assumptions C13_slice_exact.

(* rows and values otherwise untouched: the result is a sub-list of the input (same rows, same order) *)
Theorem C13_rows_untouched {A} day oc lb ub (rows : list (Z * A)) :
  (forall a b, lb = BTod a -> ub = BTod b -> a <= b) ->
  forall r, In r (df_slice_one day oc lb ub rows) <-> In r rows /\ in_window day oc lb ub (fst r) = true.
Proof. intros H r. rewrite (no_wrap_exact_any day oc lb ub rows H). apply filter_In. Qed.
Print Assumptions C13_rows_untouched.

(* bounds given as times of day are compared with each row's time of day t mod day *)
Theorem C13_time_of_day day l u h t :
  ge_lb day l (BTod h) t = (if l then h <=? t mod day else h <? t mod day) /\
  le_ub day u (BTod h) t = (if u then t mod day <=? h else t mod day <? h).
Proof. split; reflexivity. Qed.
Print Assumptions C13_time_of_day.

(* a window whose start is later than its end wraps past midnight: the union of the two half windows,
   each with its own bracket (REPAIRED code; see C13_wrap_pinned_refuted) *)
Theorem C13_wraps_past_midnight {A} day oc a b (rows : list (Z * A)) : sorted rows -> b < a ->
  df_slice_one day oc (BTod a) (BTod b) rows =
  filter (fun r => ge_lb day (fst oc) (BTod a) (fst r) || le_ub day (snd oc) (BTod b) (fst r)) rows.
Proof. exact (wrap_exact day oc a b rows). Qed.
Print Assumptions C13_wraps_past_midnight.
(* the same for an index in any stored order and with repeated timestamps (tick data): the result holds every row
   of the two half windows exactly as often as the input does (same multiset - no row is dropped or merged) and is
   in time order (concat + sort_index) *)
Theorem C13_wraps_any_order {A} day oc a b (rows : list (Z * A)) : b < a ->
  Permutation (df_slice_one day oc (BTod a) (BTod b) rows)
              (filter (fun r => ge_lb day (fst oc) (BTod a) (fst r) || le_ub day (snd oc) (BTod b) (fst r)) rows) /\
  wsorted (df_slice_one day oc (BTod a) (BTod b) rows).
Proof. exact (wrap_any day oc a b rows). Qed.
Print Assumptions C13_wraps_any_order.

(* the pinned tree drops `openclose` in the two recursive calls: with "[)" a row at midnight is kept by the
   window [03:00, 00:00) although 0 < 0 is false *)
Theorem C13_wrap_pinned_refuted :
  exists rows : list (Z * unit), sorted rows /\
    df_slice_one_pinned 24 (true, false) (BTod 3) (BTod 0) rows <>
    filter (fun r => ge_lb 24 true (BTod 3) (fst r) || le_ub 24 false (BTod 0) (fst r)) rows.
Proof. exists [(48, tt)]. split; [repeat constructor | vm_compute; discriminate]. Qed.
Print Assumptions C13_wrap_pinned_refuted.

(* stitching: with increasing upper bounds, the rows with timestamp in (ub[i-1], ub[i]] come from frame i =
   the join of series i .. i+n-1, whose column j is series i+j looked up at that timestamp *)
Theorem C13_stitch_source day oc n ss ubs : Forall ts_sorted ss -> nondec ubs = true ->
  stitch day oc n ss (UbList ubs) =
    Some (stitch_from day oc (Nat.min (Nat.max n 1) (List.length ss)) BNone (frames n ss) ubs) /\
  (forall i, (i < List.length ss)%nat -> (1 < n)%nat ->
     nth_error (frames n ss) i = Some (join (firstn n (skipn i ss)))) /\
  (forall win t r, In (t, r) (join win) <->
     (exists s, In s win /\ In t (map fst s)) /\ r = map (lookup t) win).
Proof.
  intros S N. split; [exact (stitch_ub_exact day oc n ss ubs S N)|]. split.
  - intros i Hi Hn. unfold frames. apply Nat.ltb_lt in Hn. rewrite Hn.
    rewrite nth_error_map, windows_nth by exact Hi. reflexivity.
  - intros win t r. apply join_rows.
Qed.
Print Assumptions C13_stitch_source.

(* covering each timestamp at most once (default "(]" brackets): the stitched rows are strictly increasing in time *)
Theorem C13_each_timestamp_once day n ss ubs f : Forall ts_sorted ss -> nondec ubs = true ->
  stitch day (false, true) n ss (UbList ubs) = Some f -> sorted f /\ NoDup (map fst f).
Proof.
  intros S N E. rewrite (stitch_ub_exact day _ n ss ubs S N) in E. injection E as <-.
  destruct (stitch_from_sorted day (Nat.min (Nat.max n 1) (List.length ss)) ubs (frames n ss) BNone
              (windows_sorted n ss S) N I) as [H _].
  split; [exact H | now apply sorted_NoDup].
Qed.
Print Assumptions C13_each_timestamp_once.

(* ---- df_unslice.  Setting: k series with strictly increasing timestamps and non-NaN values (df_unslice ends
   with `nona`, and NaN means "no data" in a stitched frame), k strictly increasing upper bounds u 0 < .. < u (k-1),
   1 <= n <= k.  F = the stitched frame (P_unslice.F: interval i = (u (i-1), u i] takes the join of series i..i+n-1).
   Rm m (P_unslice.Rm) is, by definition, what df_unslice assembles for bound m: for i = m-n+1 .. m the column
   j = m - i of the rows of F lying in interval i, concatenated, NaN dropped - i.e. the rows of F's column j in
   interval i go to bound i + j. *)
Theorem C13_unslice_rows day n ss ubs : ksorted ubs -> (1 <= n <= List.length ubs)%nat ->
  List.length ss = List.length ubs -> Forall ts_sorted ss -> Forall all_some ss ->
  stitch day (false, true) n ss (UbList ubs) = Some (F day n ubs ss) /\
  unslice day n (F day n ubs ss) ubs = map (fun m => (nth m ubs 0, Rm day n ubs ss m)) (seq 0 (List.length ubs)) /\
  map fst (unslice day n (F day n ubs ss) ubs) = ubs /\
  (forall m, (m < List.length ubs)%nat ->
     (* the series recovered for bound m is exactly the part of series m that was visible: u (m-n) < t <= u m *)
     Rm day n ubs ss m = filter (fun p => win day n ubs m (fst p)) (nth m ss []) /\
     (forall t, win day n ubs m t = true <-> ((n <= m)%nat -> nth (m - n) ubs 0 < t) /\ t <= nth m ubs 0)).
Proof.
  intros Hu [Hn1 Hnk] HL S V. split; [now apply stitch_is_F|]. split; [apply unslice_eq|]. split; [apply recovered_keys|].
  intros m Hm. split; [now apply Rm_exact | intros t; now apply win_spec].
Qed.
Print Assumptions C13_unslice_rows.

(* df_unslice returns one series per bound, and stitching those again with the same bounds and n reproduces the frame *)
Theorem C13_unslice_roundtrip day n ss ubs f : ksorted ubs -> (1 <= n <= List.length ubs)%nat ->
  List.length ss = List.length ubs -> Forall ts_sorted ss -> Forall all_some ss ->
  stitch day (false, true) n ss (UbList ubs) = Some f ->
  let r := unslice day n f ubs in
  map fst r = ubs /\ stitch day (false, true) n (map snd r) (UbList (map fst r)) = Some f.
Proof.
  intros Hu [Hn1 Hnk] HL S V E. rewrite (stitch_is_F day n ubs Hu Hn1 Hnk ss HL S) in E. injection E as <-.
  cbv zeta. rewrite recovered_keys. split; [reflexivity|].
  destruct (roundtrip day n ubs Hu Hn1 Hnk ss HL S V) as [HL' [S' HF]].
  fold (recovered day n ubs ss). rewrite (stitch_is_F day n ubs Hu Hn1 Hnk _ HL' S'). now rewrite HF.
Qed.
Print Assumptions C13_unslice_roundtrip.

(* the hypotheses of the two theorems hold on a non-trivial family (3 series with gaps, bounds 12 < 36 < 60, n = 2),
   and the round trip computes *)
Definition ex_ss : list ts :=
  [[(0, Some 100); (12, Some 112); (24, Some 124); (36, Some 136); (48, Some 148)];
   [(6, Some 206); (12, Some 212); (30, Some 230); (36, Some 236); (60, Some 260)];
   [(0, Some 300); (24, Some 324); (36, Some 336); (48, Some 348); (72, Some 372)]].
Example C13_unslice_example :
  ksorted [12; 36; 60] /\ Forall ts_sorted ex_ss /\ Forall all_some ex_ss /\
  map snd (unslice 24 2 (F 24 2 [12; 36; 60] ex_ss) [12; 36; 60]) =
    [[(0, Some 100); (12, Some 112)]; [(6, Some 206); (12, Some 212); (30, Some 230); (36, Some 236)];
     [(24, Some 324); (36, Some 336); (48, Some 348)]].
Proof.
  split; [repeat constructor|]. split; [repeat constructor|]. split; [repeat constructor; discriminate | vm_compute; reflexivity].
Qed.

(* ---- bound lists given as lower bounds, or as lower and upper bounds (frames n ss as in C13_stitch_source:
   frame i is the join of series i .. i+n-1; `piece` = the rows of a frame inside the bracketed window, padded) *)
Theorem C13_stitch_lb_list day oc n ss lb : Forall ts_sorted ss -> nondec lb = true ->
  (* interval i = lb i <(=) t <(=) lb (i+1), the last interval unbounded above *)
  stitch day oc n ss (LbList lb) =
    Some (List.concat (zip3 (piece day oc (Nat.min (Nat.max n 1) (List.length ss))) (frames n ss) (map BAt lb) (app (map BAt (tl lb)) [BNone]))) /\
  (forall w f l u x, In x (piece day oc w f l u) <-> exists r, In r f /\ in_window day oc l u (fst r) = true /\ x = (fst r, pad w (snd r))) /\
  (* "(]": each timestamp at most once *)
  (forall f, stitch day (false, true) n ss (LbList lb) = Some f -> sorted f /\ NoDup (map fst f)).
Proof.
  intros S N. split; [now apply stitch_lb_exact|]. split.
  - intros w f l u0 x. unfold piece. rewrite in_map_iff. split.
    + intros [r [<- Hr]]. apply filter_In in Hr. destruct Hr. exists r. auto.
    + intros [r [H1 [H2 ->]]]. exists r. split; [reflexivity | apply filter_In; auto].
  - intros f E. rewrite stitch_lb_exact in E by assumption. injection E as <-.
    destruct (lb_sorted day (Nat.min (Nat.max n 1) (List.length ss)) (frames n ss) lb (windows_sorted n ss S) N) as [H _].
    split; [exact H | now apply sorted_NoDup].
Qed.
Print Assumptions C13_stitch_lb_list.

Theorem C13_stitch_both_lists day oc n ss lb ub : Forall ts_sorted ss -> nondec lb = true -> nondec ub = true ->
  (* interval i = lb i <(=) t <(=) ub i *)
  stitch day oc n ss (BothLists lb ub) =
    Some (List.concat (zip3 (piece day oc (Nat.min (Nat.max n 1) (List.length ss))) (frames n ss) (map BAt lb) (map BAt ub))) /\
  (* "(]" and ub i <= lb (i+1) (`sep`): each timestamp at most once *)
  (sep lb ub -> forall f, stitch day (false, true) n ss (BothLists lb ub) = Some f -> sorted f /\ NoDup (map fst f)) /\
  (* bounds running in opposite directions are rejected (ValueError) *)
  (forall lb' ub', nondec lb' <> nondec ub' -> stitch day oc n ss (BothLists lb' ub') = None).
Proof.
  intros S N1 N2. split; [now apply stitch_both_exact|]. split.
  - intros Sp f E. rewrite stitch_both_exact in E by assumption. injection E as <-.
    destruct (both_sorted day (Nat.min (Nat.max n 1) (List.length ss)) (frames n ss) lb ub (windows_sorted n ss S) N1 Sp) as [H _].
    split; [exact H | now apply sorted_NoDup].
  - intros lb' ub' H. unfold stitch. destruct (nondec lb'), (nondec ub'); simpl; try reflexivity; congruence.
Qed.
Print Assumptions C13_stitch_both_lists.

(* the hypotheses are satisfiable on a non-trivial series; bounds on index points, all four brackets *)
Example C13_example :
  let rows := [(0, 1); (6, 2); (12, 3); (18, 4); (24, 5); (30, 6); (36, 7)] in
  sorted rows /\
  map fst (df_slice_one 24 (true, true) (BAt 12) (BAt 30) rows) = [12; 18; 24; 30] /\
  map fst (df_slice_one 24 (true, false) (BAt 12) (BAt 30) rows) = [12; 18; 24] /\
  map fst (df_slice_one 24 (false, true) (BAt 12) (BAt 30) rows) = [18; 24; 30] /\
  map fst (df_slice_one 24 (false, false) (BAt 12) (BAt 30) rows) = [18; 24] /\
  map fst (df_slice_one 24 (true, false) (BTod 18) (BTod 6) rows) = [0; 18; 24] /\
  (* stored newest-first with a repeated stamp: rows come back in stored order; wrap-around keeps both rows at 18 *)
  map snd (df_slice_one 24 (true, true) (BAt 12) (BAt 30) [(30, 1); (18, 2); (18, 3); (6, 4); (12, 5)]) = [1; 2; 3; 5] /\
  map snd (df_slice_one 24 (true, false) (BTod 18) (BTod 6) [(30, 1); (18, 2); (18, 3); (6, 4); (24, 5)]) = [2; 3; 5] /\
  parse_oc "[)" = Some (true, false) /\ parse_oc "x]" = None.
Proof. split; [repeat constructor; simpl; lia | repeat split; vm_compute; reflexivity]. Qed.

(* decreasing bound lists: series and bounds are both reversed first, so bound ub[i] still goes with series i *)
Theorem C13_decreasing_bounds day oc n ss ubs : nondec ubs = false -> nondec (rev ubs) = true ->
  stitch day oc n ss (UbList ubs) = stitch day oc n (rev ss) (UbList (rev ubs)).
Proof. intros H1 H2. unfold stitch. rewrite H1, H2. reflexivity. Qed.
Print Assumptions C13_decreasing_bounds.
Theorem C13_decreasing_bounds_lb_both day oc n ss lb ub :
  (nondec lb = false -> nondec (rev lb) = true ->
     stitch day oc n ss (LbList lb) = stitch day oc n (rev ss) (LbList (rev lb))) /\
  (nondec lb = false -> nondec ub = false -> nondec (rev lb) = true -> nondec (rev ub) = true ->
     stitch day oc n ss (BothLists lb ub) = stitch day oc n (rev ss) (BothLists (rev lb) (rev ub))).
Proof. split; intros; unfold stitch; repeat match goal with H : nondec _ = _ |- _ => rewrite H; clear H end; reflexivity. Qed.
Print Assumptions C13_decreasing_bounds_lb_both.
