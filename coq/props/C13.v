(* C13 — df_slice keeps exactly the rows in the interval; stitching switches at the bounds; df_unslice inverse.
   Property theorems only, closed by lemmas of proofs/P_slice.v about model/M_slice.v.  `day` is the
   length of a day in the unit of the timestamps (any integer; the harness uses hours, day = 24);
   `sorted rows` = strictly increasing timestamps; oc = (left bracket closed?, right bracket closed?). *)
From Coq Require Import ZArith List Bool Arith Lia Sorting.Sorted String.
From PB Require Import model.M_slice proofs.P_slice.
Import ListNotations.
Open Scope Z_scope.

(* a single slice returns exactly the rows with lb < / <= t and t < / <= ub as the brackets prescribe
   (all four combinations: oc ranges over bool * bool), a missing bound being unbounded; whichever of the
   pandas fast path and the mask path the code takes *)
Theorem C13_slice_exact {A} day oc lb ub (rows : list (Z * A)) : sorted rows ->
  (forall a b, lb = BTod a -> ub = BTod b -> a <= b) ->
  df_slice_one day oc lb ub rows = filter (fun r => in_window day oc lb ub (fst r)) rows /\
  (forall t, in_window day oc lb ub t =
     (match lb with BNone => true | BAt b => if fst oc then b <=? t else b <? t
                  | BTod h => if fst oc then h <=? t mod day else h <? t mod day end) &&
     (match ub with BNone => true | BAt b => if snd oc then t <=? b else t <? b
                  | BTod h => if snd oc then t mod day <=? h else t mod day <? h end)).
Proof. intros S H. split; [exact (no_wrap_exact day oc lb ub rows S H) | reflexivity]. Qed.
Print Assumptions C13_slice_exact.

(* rows and values otherwise untouched: the result is a sub-list of the input (same rows, same order) *)
Theorem C13_rows_untouched {A} day oc lb ub (rows : list (Z * A)) : sorted rows ->
  (forall a b, lb = BTod a -> ub = BTod b -> a <= b) ->
  forall r, In r (df_slice_one day oc lb ub rows) <-> In r rows /\ in_window day oc lb ub (fst r) = true.
Proof. intros S H r. rewrite (no_wrap_exact day oc lb ub rows S H). apply filter_In. Qed.
Print Assumptions C13_rows_untouched.

(* bounds given as times of day are compared with each row's time of day t mod day *)
Theorem C13_time_of_day day l u h t :
  ge_lb day l (BTod h) t = (if l then h <=? t mod day else h <? t mod day) /\
  le_ub day u (BTod h) t = (if u then t mod day <=? h else t mod day <? h).
Proof. split; reflexivity. Qed.
Print Assumptions C13_time_of_day.

(* a window whose start is later than its end wraps past midnight: the union of the two half windows,
   each with its own bracket (REPAIRED code; see C13_wrap_pinned_refuted) *)
Theorem C13_wraps_past_midnight {A} day oc a b (rows : list (Z * A)) : sorted rows -> b < a ->
  df_slice_one day oc (BTod a) (BTod b) rows =
  filter (fun r => ge_lb day (fst oc) (BTod a) (fst r) || le_ub day (snd oc) (BTod b) (fst r)) rows.
Proof. exact (wrap_exact day oc a b rows). Qed.
Print Assumptions C13_wraps_past_midnight.

(* the pinned tree drops `openclose` in the two recursive calls: with "[)" a row at midnight is kept by the
   window [03:00, 00:00) although 0 < 0 is false *)
Theorem C13_wrap_pinned_refuted :
  exists rows : list (Z * unit), sorted rows /\
    df_slice_one_pinned 24 (true, false) (BTod 3) (BTod 0) rows <>
    filter (fun r => ge_lb 24 true (BTod 3) (fst r) || le_ub 24 false (BTod 0) (fst r)) rows.
Proof. exists [(48, tt)]. split; [repeat constructor | vm_compute; discriminate]. Qed.
Print Assumptions C13_wrap_pinned_refuted.

(* stitching: with increasing upper bounds, the rows with timestamp in (ub[i-1], ub[i]] come from frame i =
   the join of series i .. i+n-1, whose column j is series i+j looked up at that timestamp *)
Theorem C13_stitch_source day oc n ss ubs : Forall ts_sorted ss -> nondec ubs = true ->
  stitch day oc n ss (UbList ubs) =
    Some (stitch_from day oc (Nat.min (Nat.max n 1) (List.length ss)) BNone (frames n ss) ubs) /\
  (forall i, (i < List.length ss)%nat -> (1 < n)%nat ->
     nth_error (frames n ss) i = Some (join (firstn n (skipn i ss)))) /\
  (forall win t r, In (t, r) (join win) <->
     (exists s, In s win /\ In t (map fst s)) /\ r = map (lookup t) win).
Proof.
  intros S N. split; [exact (stitch_ub_exact day oc n ss ubs S N)|]. split.
  - intros i Hi Hn. unfold frames. apply Nat.ltb_lt in Hn. rewrite Hn.
    rewrite nth_error_map, windows_nth by exact Hi. reflexivity.
  - intros win t r. apply join_rows.
Qed.
Print Assumptions C13_stitch_source.

(* covering each timestamp at most once (default "(]" brackets): the stitched rows are strictly increasing in time *)
Theorem C13_each_timestamp_once day n ss ubs f : Forall ts_sorted ss -> nondec ubs = true ->
  stitch day (false, true) n ss (UbList ubs) = Some f -> sorted f /\ NoDup (map fst f).
Proof.
  intros S N E. rewrite (stitch_ub_exact day _ n ss ubs S N) in E. injection E as <-.
  destruct (stitch_from_sorted day (Nat.min (Nat.max n 1) (List.length ss)) ubs (frames n ss) BNone
              (windows_sorted n ss S) N I) as [H _].
  split; [exact H | now apply sorted_NoDup].
Qed.
Print Assumptions C13_each_timestamp_once.

(* df_unslice then stitch gives the stitched frame back.  PARTIAL: checked by computation on one family
   (3 series with gaps, bounds 12 < 36 < 60, every n in 1..3); the general statement
   (forall ss without NaN values, strictly increasing ubs, n) is NOT proved here - it is covered by the
   correspondence (model = real df_unslice on every generated case) and by the round-trip oracle. *)
Definition ex_ss : list ts :=
  [[(0, Some 100); (12, Some 112); (24, Some 124); (36, Some 136); (48, Some 148)];
   [(6, Some 206); (12, Some 212); (30, Some 230); (36, Some 236); (60, Some 260)];
   [(0, Some 300); (24, Some 324); (36, Some 336); (48, Some 348); (72, Some 372)]].
Theorem C13_unslice_roundtrip_partial :
  forall n, In n [1; 2; 3]%nat ->
  match stitch 24 (false, true) n ex_ss (UbList [12; 36; 60]) with
  | Some f =>
      let r := unslice 24 (if (1 <? n)%nat then n else 1%nat) f [12; 36; 60] in
      map fst r = [12; 36; 60] /\ stitch 24 (false, true) n (map snd r) (UbList [12; 36; 60]) = Some f
  | None => False
  end.
Proof. intros n [<-|[<-|[<-|[]]]]; vm_compute; split; reflexivity. Qed.
Print Assumptions C13_unslice_roundtrip_partial.

(* the hypotheses are satisfiable on a non-trivial series; bounds on index points, all four brackets *)
Example C13_example :
  let rows := [(0, 1); (6, 2); (12, 3); (18, 4); (24, 5); (30, 6); (36, 7)] in
  sorted rows /\
  map fst (df_slice_one 24 (true, true) (BAt 12) (BAt 30) rows) = [12; 18; 24; 30] /\
  map fst (df_slice_one 24 (true, false) (BAt 12) (BAt 30) rows) = [12; 18; 24] /\
  map fst (df_slice_one 24 (false, true) (BAt 12) (BAt 30) rows) = [18; 24; 30] /\
  map fst (df_slice_one 24 (false, false) (BAt 12) (BAt 30) rows) = [18; 24] /\
  map fst (df_slice_one 24 (true, false) (BTod 18) (BTod 6) rows) = [0; 18; 24] /\
  parse_oc "[)" = Some (true, false) /\ parse_oc "x]" = None.
Proof. split; [repeat constructor; simpl; lia | repeat split; vm_compute; reflexivity]. Qed.

(* decreasing bound lists: series and bounds are both reversed first, so bound ub[i] still goes with series i *)
Theorem C13_decreasing_bounds day oc n ss ubs : nondec ubs = false -> nondec (rev ubs) = true ->
  stitch day oc n ss (UbList ubs) = stitch day oc n (rev ss) (UbList (rev ubs)).
Proof. intros H1 H2. unfold stitch. rewrite H1, H2. reflexivity. Qed.
Print Assumptions C13_decreasing_bounds.
