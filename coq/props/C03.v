(* C03 — df_sync / df_reindex / presync put every timeseries of a nested collection on the
   prescribed common index, values intact.  Property theorems only; each is closed by a
   lemma of proofs/P_align.v.  All statements are for every collection (no bound). *)
From Coq Require Import ZArith List Bool Lia.
From PB Require Import model.M_align proofs.P_align.
Import ListNotations.
Open Scope Z_scope.

(* the result is the input container with each leaf replaced by its aligned image *)
Theorem C03_structure_preserved tr h m ch : (forall o, tr <> Leaf o) ->
  shape_of (df_sync tr h m ch) = shape_of tr /\
  flatten (df_sync tr h m ch) = map (sync_leaf tr h m ch) (flatten tr) /\
  shape_of (df_reindex tr h m) = shape_of tr /\
  flatten (df_reindex tr h m) =
    map (reindex_obj (match h with HX x => TgIdx x | _ => df_index (flatten tr) h end) m) (flatten tr).
Proof.
  intros Hn. destruct (df_sync_leafwise tr h m ch Hn) as [A B]. destruct (df_reindex_leafwise tr h m) as [C D].
  repeat split; assumption.
Qed.
Print Assumptions C03_structure_preserved.

(* objects that are not timeseries pass through unchanged, whatever the target *)
Theorem C03_non_timeseries_pass_through tr h m ch tg o :
  match o with ON _ | OX _ => True | _ => False end ->
  sync_leaf tr h m ch o = o /\ reindex_obj tg m o = o.
Proof.
  intros H. split; [apply sync_leaf_passthrough; exact H | apply reindex_obj_passthrough; destruct o; tauto].
Qed.
Print Assumptions C03_non_timeseries_pass_through.

(* df_sync of something that is not a list / dict returns it unchanged; a collection without any timeseries or
   array is returned unchanged by every entry point (df_index is None) *)
Theorem C03_nothing_to_align o tr h m ch :
  df_sync (Leaf o) h m ch = Leaf o /\
  (pd_indexes (flatten tr) = [] -> arr_lens (flatten tr) = [] -> (forall x, h <> HX x) ->
     flatten (df_reindex tr h m) = flatten tr /\ df_index (flatten tr) h = TgNone).
Proof.
  split; [reflexivity|]. intros Hp Ha Hh.
  assert (E : df_index (flatten tr) h = TgNone) by (unfold df_index; rewrite Hp, Ha; reflexivity).
  split; [|exact E]. rewrite (proj1 (df_reindex_leafwise tr h m)).
  replace (match h with HX x => TgIdx x | _ => df_index (flatten tr) h end) with TgNone
    by (destruct h; try (symmetry; exact E); exfalso; eapply Hh; reflexivity).
  rewrite <- (map_id (flatten tr)) at 2. apply map_ext. intros o'. destruct o'; reflexivity.
Qed.
Print Assumptions C03_nothing_to_align.

(* every timeseries leaf of the result carries the prescribed index *)
Theorem C03_common_index tr h m ch P o' :
  join_index h (pd_indexes (flatten tr)) = Some P -> is_pd o' = true ->
  ((forall o, tr <> Leaf o) -> In o' (flatten (df_sync tr h m ch)) -> obj_index o' = Some P) /\
  (In o' (flatten (df_reindex tr h m)) -> obj_index o' = Some (match h with HX x => x | _ => P end)).
Proof.
  intros HP Hpd. split.
  - intros Hn Hin. exact (df_sync_common_index tr h m ch P o' Hn HP Hin Hpd).
  - intros Hin. apply (df_reindex_common_index tr h m _ o'); [|exact Hin|exact Hpd].
    destruct h; try exact HP. reflexivity.
Qed.
Print Assumptions C03_common_index.

(* df_reindex with an explicit index: that index, whatever the collection holds *)
Theorem C03_explicit_index tr x m o' :
  In o' (flatten (df_reindex tr (HX x) m)) -> is_pd o' = true -> obj_index o' = Some x.
Proof. intros Hin Hpd. exact (df_reindex_common_index tr (HX x) m x o' eq_refl Hin Hpd). Qed.
Print Assumptions C03_explicit_index.

(* ... and the prescribed index is the intersection / union / first / last / explicit one, sorted *)
Theorem C03_prescribed_index h idxs P : join_index h idxs = Some P ->
  match h with
  | HI => forall t, In t P <-> (forall i, In i idxs -> In t i)
  | HO => forall t, In t P <-> (exists i, In i idxs /\ In t i)
  | HL => exists rest, idxs = P :: rest
  | HR => exists front, idxs = front ++ [P]
  | HX x => P = x
  end /\
  (Forall sorted idxs -> (forall x, h = HX x -> sorted x) -> sorted P /\
     forall Q, sorted Q -> (forall t, In t Q <-> In t P) -> Q = P).
Proof.
  intros H. split; [exact (join_index_spec h idxs P H)|].
  intros HF HX. pose proof (join_index_sorted h idxs P HF HX H) as HS. split; [exact HS|].
  intros Q HQ HE. apply sorted_ext; assumption.
Qed.
Print Assumptions C03_prescribed_index.

(* presync: every timeseries the wrapped function receives is on the prescribed index *)
Theorem C03_presync_common_index h m ch d args P col call a o' :
  join_index h (pd_indexes (flat_map flatten args)) = Some P ->
  In (col, call) (presync_calls h m ch d args) -> In a call -> In o' (flatten a) -> is_pd o' = true ->
  obj_index o' = Some P.
Proof. exact (presync_common_index h m ch d args P col call a o'). Qed.
Print Assumptions C03_presync_common_index.

(* no fill method: surviving timestamps keep their value (Series cells, DataFrame rows and columns) *)
Theorem C03_values_intact :
  (forall (s : gts cell) idx t v, In t idx -> lookup t s = Some v ->
      lookup t (reindex_m None is_nan MNone s idx) = Some v) /\
  (forall c (r : gts (list cell)) idx t row, In t idx -> lookup t r = Some row ->
      lookup t (reindex_m (nanrow c) row_isnan MNone r idx) = Some row) /\
  (forall c (r : gts (list cell)) idx x,
      column c (reindex_m (nanrow c) row_isnan MNone r idx) x = reindex_m None is_nan MNone (column c r x) idx).
Proof.
  split; [|split].
  - intros s idx t v. exact (reindex_values_intact None is_nan s idx t v).
  - intros c r idx t row. exact (reindex_values_intact (nanrow c) row_isnan r idx t row).
  - intros c r idx x. exact (column_reindex c r idx x).
Qed.
Print Assumptions C03_values_intact.

(* with a fill method a non-NaN observation at a surviving timestamp is kept as well *)
Theorem C03_values_intact_filled (s : gts cell) idx t v :
  sorted (index_of s) -> In t idx -> In (t, Some v) s ->
  lookup t (reindex_m None is_nan MFfill s idx) = Some (Some v) /\
  lookup t (reindex_m None is_nan MBfill s idx) = Some (Some v).
Proof.
  intros Hs Hi Hin. split.
  - destruct (ffill_is_asof None is_nan s idx t Hs Hi) as [w [Hl Hw]].
    rewrite Hl. f_equal. exact (last_obs_at_observation None is_nan s t w (Some v) Hs Hin eq_refl Hw).
  - destruct (bfill_is_asof None is_nan s idx t Hs Hi) as [w [Hl Hw]].
    rewrite Hl. f_equal. exact (next_obs_at_observation None is_nan s t w (Some v) Hs Hin eq_refl Hw).
Qed.
Print Assumptions C03_values_intact_filled.

(* timestamps the object lacked are NaN; timestamps outside the new index are gone *)
Theorem C03_missing_is_nan :
  (forall (s : gts cell) idx t, In t idx -> ~ In t (index_of s) -> lookup t (reindex_m None is_nan MNone s idx) = Some None) /\
  (forall c (r : gts (list cell)) idx t, In t idx -> ~ In t (index_of r) ->
      lookup t (reindex_m (nanrow c) row_isnan MNone r idx) = Some (nanrow c)) /\
  (forall (s : gts cell) m idx t, ~ In t idx -> lookup t (reindex_m None is_nan m s idx) = None).
Proof.
  split; [|split].
  - intros s idx t. exact (reindex_missing_nan None is_nan s idx t).
  - intros c r idx t. exact (reindex_missing_nan (nanrow c) row_isnan r idx t).
  - intros s m idx t. exact (reindex_not_in_index None is_nan s m idx t).
Qed.
Print Assumptions C03_missing_is_nan.

(* ffill / bfill are as-of joins: the last / next non-NaN observation at or before / after t, NaN if none.
   For a DataFrame the observation is the row (a row counts unless it is entirely NaN). *)
Theorem C03_ffill_is_asof :
  (forall (s : gts cell) idx t, sorted (index_of s) -> In t idx ->
     exists v, lookup t (reindex_m None is_nan MFfill s idx) = Some v /\ last_obs None is_nan s t v) /\
  (forall c (r : gts (list cell)) idx t, sorted (index_of r) -> In t idx ->
     exists row, lookup t (reindex_m (nanrow c) row_isnan MFfill r idx) = Some row /\ last_obs (nanrow c) row_isnan r t row).
Proof. split; [intros s idx t; exact (ffill_is_asof None is_nan s idx t) | intros c r idx t; exact (ffill_is_asof (nanrow c) row_isnan r idx t)]. Qed.
Print Assumptions C03_ffill_is_asof.

Theorem C03_bfill_is_asof :
  (forall (s : gts cell) idx t, sorted (index_of s) -> In t idx ->
     exists v, lookup t (reindex_m None is_nan MBfill s idx) = Some v /\ next_obs None is_nan s t v) /\
  (forall c (r : gts (list cell)) idx t, sorted (index_of r) -> In t idx ->
     exists row, lookup t (reindex_m (nanrow c) row_isnan MBfill r idx) = Some row /\ next_obs (nanrow c) row_isnan r t row).
Proof. split; [intros s idx t; exact (bfill_is_asof None is_nan s idx t) | intros c r idx t; exact (bfill_is_asof (nanrow c) row_isnan r idx t)]. Qed.
Print Assumptions C03_bfill_is_asof.

(* bare numpy arrays: common length by policy; aligned at the end; shorter ones NaN-padded in front;
   a fill method carries the previous / next filled cell into NaN cells *)
Theorem C03_numpy_end_aligned n a :
  length (np_align n a) = n /\
  (forall k, (k < n)%nat -> (k < length a)%nat -> nth (n - 1 - k) (np_align n a) None = nth (length a - 1 - k) a None) /\
  (forall j, (j < n - length a)%nat -> nth j (np_align n a) None = None) /\
  (forall m, length (arr_fill m (np_align n a)) = n).
Proof.
  split; [apply np_align_length|]. split; [intros k; exact (np_align_end n a k)|]. split; [intros j; exact (np_align_front n a j)|].
  intros m. rewrite arr_fill_length. apply np_align_length.
Qed.
Print Assumptions C03_numpy_end_aligned.

(* 2-d arrays: only the ROWS are truncated / NaN-padded in front; the k columns are untouched (shape (n, k));
   a fill method works column by column exactly as on a 1-d array *)
Theorem C03_numpy_2d_rows_only n m k r : Forall (fun row => length row = k) r ->
  let al := np_align_g (repeat None k) n r in
  exists r', reindex_obj (TgLen n) m (OA2 k r) = OA2 k r' /\ length r' = n /\ Forall (fun row => length row = k) r' /\
    (forall i, (i < n)%nat -> (i < length r)%nat -> nth (n - 1 - i) al (repeat None k) = nth (length r - 1 - i) r (repeat None k)) /\
    (forall i, (i < n - length r)%nat -> nth i al (repeat None k) = repeat None k) /\
    (forall j, colj j r' = arr_fill m (colj j al)).
Proof.
  intros HF al.
  assert (Hal : Forall (fun row => length row = k) al).
  { apply Forall_forall. intros row Hrow. destruct (np_align_g_rows (repeat None k) n r row Hrow) as [H| ->].
    - rewrite Forall_forall in HF. apply HF. exact H.
    - apply repeat_length. }
  destruct (arr2_fill_shape m k al Hal) as [Hlen Hrows].
  exists (arr2_fill m k al). split; [reflexivity|]. split; [rewrite Hlen; apply np_align_g_length|]. split; [exact Hrows|].
  split; [intros i; apply np_align_g_end|]. split; [intros i; apply np_align_g_front|].
  intros j. destruct m; simpl.
  - reflexivity.
  - assert (HF' : Forall (fun row => length row = length (repeat (@None Z) k)) al) by (rewrite repeat_length; exact Hal).
    rewrite (proj1 (arr2_ffill_column j al _ HF')). rewrite nth_repeat'. reflexivity.
  - exact (proj1 (arr2_bfill_column j k al Hal)).
Qed.
Print Assumptions C03_numpy_2d_rows_only.

(* bare arrays mixed with timeseries (outside the property's "separately" clause, modelled for faithfulness): the joint
   index is the pandas one; df_sync / df_reindex raise ValueError (None) exactly when some array has more than one row
   and a length other than the index length; otherwise every array comes back unchanged *)
Theorem C03_arrays_mixed_with_series tr h m ch P :
  ((forall o, tr <> Leaf o) -> df_index (flatten tr) h = TgIdx P ->
     (df_sync_checked tr h m ch = None <->
        exists o n, In o (flatten tr) /\ arr_rows o = Some n /\ n <> length P /\ (1 < n)%nat) /\
     (forall r, df_sync_checked tr h m ch = Some r -> r = df_sync tr h m ch)) /\
  (reindex_target tr h = TgIdx P ->
     (df_reindex_checked tr h m = None <->
        exists o n, In o (flatten tr) /\ arr_rows o = Some n /\ n <> length P /\ (1 < n)%nat) /\
     (forall r, df_reindex_checked tr h m = Some r -> r = df_reindex tr h m)) /\
  (forall o n, arr_rows o = Some n -> reindex_obj (TgIdx P) m o = o).
Proof.
  split; [intros Hn HP; exact (df_sync_checked_spec tr h m ch P Hn HP)|].
  split; [intros HP; exact (df_reindex_checked_spec tr h m P HP)|].
  intros o n. apply reindex_obj_array_unchanged.
Qed.
Print Assumptions C03_arrays_mixed_with_series.

Theorem C03_numpy_length_by_policy h ls n : np_len h ls = Some n ->
  match h with
  | HI => (forall l, In l ls -> (n <= l)%nat) /\ In n ls
  | HO => (forall l, In l ls -> (l <= n)%nat) /\ In n ls
  | HL => exists rest, ls = n :: rest
  | HR => exists front, ls = front ++ [n]
  | HX _ => True
  end.
Proof. exact (np_len_spec h ls n). Qed.
Print Assumptions C03_numpy_length_by_policy.

Theorem C03_numpy_fill a :
  (forall j, (j < length a)%nat ->
     nth j (arr_fill MFfill a) None =
       match nth j a None with Some v => Some v
       | None => match j with O => None | S j' => nth j' (arr_fill MFfill a) None end end) /\
  (forall j, (j < length a)%nat ->
     nth j (arr_fill MBfill a) None =
       match nth j a None with Some v => Some v | None => nth (S j) (arr_fill MBfill a) None end).
Proof. split; [intros j; exact (arr_ffill_spec a None j) | intros j; exact (arr_bfill_spec a j)]. Qed.
Print Assumptions C03_numpy_fill.

(* every proper (multi-column) frame gets exactly the common column set; the common set is the
   intersection / union / first / last of the frames' column sets (C03_prescribed_index on frame_cols);
   kept columns keep their cells, new columns are NaN *)
Theorem C03_columns_common tr h m c C o' : (forall o, tr <> Leaf o) ->
  join_index c (frame_cols (flatten tr)) = Some C ->
  In o' (flatten (df_sync tr h m (Some c))) ->
  exists o, In o (flatten tr) /\
    match o with
    | OF c0 r0 => if multi c0 then exists r', o' = OF C r' else exists r', o' = OF c0 r'
    | _ => True
    end.
Proof. exact (df_sync_common_columns tr h m c C o'). Qed.
Print Assumptions C03_columns_common.

Theorem C03_columns_values C c r : multi c = true ->
  exists r', recolumn_obj C (OF c r) = OF C r' /\ index_of r' = index_of r /\
    (forall x, In x C -> column C r' x = column c r x) /\
    (forall x, ~ In x c -> column c r x = map (fun p => (fst p, None)) r).
Proof.
  intros Hm. destruct (recolumn_columns C c r Hm) as [r' [A [B D]]].
  exists r'. repeat split; try assumption. intros x Hx. apply column_missing_is_nan. exact Hx.
Qed.
Print Assumptions C03_columns_values.

(* non-vacuity: a nested collection with overlapping series, a frame, NaNs and pass-through members *)
Example C03_example :
  let s1 := OS [(0, Some 1); (1, None); (3, Some 4)] in
  let s2 := OS [(1, Some 5); (2, None); (3, Some 7); (6, Some 8)] in
  let f := OF [1; 2] [(0, [Some 1; None]); (1, [None; None]); (3, [None; Some 4])] in
  let g := OF [2; 3] [(3, [Some 9; Some 10])] in
  let tr := TL [Leaf s1; TD [(5, TL [Leaf s2; Leaf (OX 7)]); (6, Leaf f)]; Leaf g] in
  wf_tree tr /\
  join_index HO (pd_indexes (flatten tr)) = Some [0; 1; 2; 3; 6] /\
  join_index HI (frame_cols (flatten tr)) = Some [2] /\
  df_sync tr HO MFfill (Some HI) =
    TL [Leaf (OS [(0, Some 1); (1, Some 1); (2, Some 1); (3, Some 4); (6, Some 4)]);
        TD [(5, TL [Leaf (OS [(0, None); (1, Some 5); (2, Some 5); (3, Some 7); (6, Some 8)]); Leaf (OX 7)]);
            (6, Leaf (OF [2] [(0, [None]); (1, [None]); (2, [None]); (3, [Some 4]); (6, [Some 4])]))];
        Leaf (OF [2] [(0, [None]); (1, [None]); (2, [None]); (3, [Some 9]); (6, [Some 9])])] /\
  np_align 4 [Some 1; Some 2] = [None; None; Some 1; Some 2] /\ np_align 1 [Some 1; Some 2] = [Some 2] /\
  reindex_obj (TgLen 3) MFfill (OA2 2 [[Some 1; None]; [None; Some 4]]) = OA2 2 [[None; None]; [Some 1; None]; [Some 1; Some 4]].
Proof.
  cbv zeta. split.
  - unfold wf_tree. simpl.
    repeat (first [apply Forall_cons | apply Forall_nil | split]); simpl; try reflexivity; try exact I;
      intros y Hy; simpl in Hy; intuition lia.
  - vm_compute. repeat split; reflexivity.
Qed.
