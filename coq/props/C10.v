(* C10 — drange enumerates exactly t0, t0+bump, ... up to t1 for every kind of bump. *)
From Coq Require Import ZArith List Bool Lia Sorted.
From PB Require Import model.M_cal model.M_dates model.M_drange proofs.P_drange proofs.P_drange_int proofs.P_dates_m proofs.P_dates_prog.
Import ListNotations.
Open Scope Z_scope.

(* timedelta, single (non-business) and compound period strings: the result IS the iteration of the
   bump from t0 while within [t0, t1] (resp. [t1, t0]) and starts at t0 *)
Theorem C10_forward_is_iteration fuel t0 t1 b l : looped b = true -> t0 < t1 ->
  drange fuel t0 t1 b = Ok l -> iter_up (step_of b) t1 t0 l /\ exists l', l = t0 :: l'.
Proof. exact (drange_forward_is_iteration fuel t0 t1 b l). Qed.
Print Assumptions C10_forward_is_iteration.
Theorem C10_backward_is_iteration fuel t0 t1 b l : looped b = true -> t1 < t0 ->
  drange fuel t0 t1 b = Ok l -> iter_down (step_of b) t1 t0 l /\ exists l', l = t0 :: l'.
Proof. exact (drange_backward_is_iteration fuel t0 t1 b l). Qed.
Print Assumptions C10_backward_is_iteration.

(* what "the iteration" means, for any step that progresses by at least g > 0: starts at t0,
   stays within the bounds, strictly monotone, consecutive elements are one bump apart *)
Theorem C10_iteration_strictly_monotone_within (f : Z -> option Z) g t1 t l :
  0 < g -> (forall t t', f t = Some t' -> t + g <= t') -> iter_up f t1 t l ->
  (t <= t1 -> exists l', l = t :: l') /\ Forall (fun x => t <= x <= t1) l /\ StronglySorted Z.lt l /\
  (forall a b pre post, l = pre ++ a :: b :: post -> f a = Some b).
Proof. intros Hg Hp. exact (iter_up_props f g Hg Hp t1 t l). Qed.
Print Assumptions C10_iteration_strictly_monotone_within.
Theorem C10_iteration_down_strictly_monotone_within (f : Z -> option Z) g t1 t l :
  0 < g -> (forall t t', f t = Some t' -> t' + g <= t) -> iter_down f t1 t l ->
  (t1 <= t -> exists l', l = t :: l') /\ Forall (fun x => t1 <= x <= t) l /\ StronglySorted Z.gt l /\
  (forall a b pre post, l = pre ++ a :: b :: post -> f a = Some b).
Proof. intros Hg Hp. exact (iter_down_props f g Hg Hp t1 t l). Qed.
Print Assumptions C10_iteration_down_strictly_monotone_within.

(* termination: (t1 - t0) / g + 2 iterations of fuel always suffice *)
Theorem C10_loop_terminates (f : Z -> option Z) g fuel t t1 :
  0 < g -> (forall t t', f t = Some t' -> t + g <= t') -> (forall x, t <= x <= t1 -> f x <> None) ->
  (0 < fuel)%nat -> (t1 - t) / g + 2 <= Z.of_nat fuel -> exists l, loop_up f fuel t t1 = Ok l.
Proof. intros Hg Hp. exact (loop_up_total f g Hg Hp fuel t t1). Qed.
Print Assumptions C10_loop_terminates.
Theorem C10_loop_down_terminates (f : Z -> option Z) g fuel t t1 :
  0 < g -> (forall t t', f t = Some t' -> t' + g <= t) -> (forall x, t1 <= x <= t -> f x <> None) ->
  (0 < fuel)%nat -> (t - t1) / g + 2 <= Z.of_nat fuel -> exists l, loop_down f fuel t t1 = Ok l.
Proof. intros Hg Hp. exact (loop_down_total f g Hg Hp fuel t t1). Qed.
Print Assumptions C10_loop_down_terminates.

Theorem C10_singleton fuel t0 b : drange fuel t0 t0 b = Ok [t0].
Proof. exact (drange_singleton fuel t0 b). Qed.
Print Assumptions C10_singleton.

(* a bump pointing away from t1 raises; the result is never empty *)
Theorem C10_wrong_direction_raises fuel t0 t1 b t' : looped b = true ->
  step_of b t0 = Some t' -> (t0 < t1 /\ t' <= t0) \/ (t1 < t0 /\ t0 <= t') -> drange fuel t0 t1 b = Raise.
Proof. exact (drange_wrong_direction fuel t0 t1 b t'). Qed.
Print Assumptions C10_wrong_direction_raises.
Theorem C10_int_wrong_direction_raises fuel t0 t1 n : t0 <> t1 -> tdays t0 t1 * n <= 0 -> drange fuel t0 t1 (BInt n) = Raise.
Proof. exact (drange_int_wrong_direction fuel t0 t1 n). Qed.
Print Assumptions C10_int_wrong_direction_raises.

(* business-day bumps list weekdays only: the weekdays among all days between the endpoints
   (reversed for a negative count), every |n|-th of them *)
Theorem C10_b_all_weekdays fuel t0 t1 n l : t0 <> t1 -> drange fuel t0 t1 (BTok [(n, UB)]) = Ok l ->
  exists days, iter_up (fun t => Some (t + DAYUS)) (Z.max t0 t1) (Z.min t0 t1) days /\
    l = stride (Z.abs n) (if n <? 0 then rev (filter (fun t => weekday t <? 5) days) else filter (fun t => weekday t <? 5) days) /\
    Forall (fun t => weekday t <= 4) l.
Proof. exact (drange_b_weekdays fuel t0 t1 n l). Qed.
Print Assumptions C10_b_all_weekdays.

(* integer bumps: the (daily rrule, reversed, strided) list IS the iteration of "+ n days" from t0;
   backwards this needs endpoints a whole number of days apart, exactly as the property states *)
Theorem C10_int_forward_is_iteration fuel t0 t1 n l : t0 < t1 -> 0 < n ->
  drange fuel t0 t1 (BInt n) = Ok l -> iter_up (fun t => Some (t + n * DAYUS)) t1 t0 l.
Proof. exact (drange_int_forward fuel t0 t1 n l). Qed.
Print Assumptions C10_int_forward_is_iteration.
Theorem C10_int_backward_is_iteration fuel t0 t1 n l : t1 < t0 -> n < 0 -> (t0 - t1) mod DAYUS = 0 ->
  drange fuel t0 t1 (BInt n) = Ok l -> iter_down (fun t => Some (t + n * DAYUS)) t1 t0 l.
Proof. exact (drange_int_backward fuel t0 t1 n l). Qed.
Print Assumptions C10_int_backward_is_iteration.
(* integer n, timedelta(n) and 'nd' give identical lists *)
Theorem C10_int_td_nd_same fuel t0 t1 n l l2 l3 :
  t0 <> t1 -> (t1 < t0 -> (t0 - t1) mod DAYUS = 0) ->
  drange fuel t0 t1 (BInt n) = Ok l -> drange fuel t0 t1 (BTd (n * DAYUS)) = Ok l2 ->
  drange fuel t0 t1 (BTok [(n, UD)]) = Ok l3 -> l = l2 /\ l = l3.
Proof. exact (drange_int_td_nd_same fuel t0 t1 n l l2 l3). Qed.
Print Assumptions C10_int_td_nd_same.

(* the progress hypothesis of the loop theorems holds for the real positive single-period bumps:
   fixed-length and business-day units by at least one unit, month-based units by more than 27 days *)
Theorem C10_fixed_bumps_progress u t k t' : 1 <= k -> bump1 t (k, u) = Some t' ->
  match u with
  | UD | UB => t + DAYUS <= t' | UW => t + 7 * DAYUS <= t' | UH => t + 3600000000 <= t'
  | UN => t + 60000000 <= t' | US => t + 1000000 <= t' | _ => True
  end.
Proof. exact (fixed_bump_progress u t k t'). Qed.
Print Assumptions C10_fixed_bumps_progress.
Theorem C10_month_bumps_progress u t k t' y m d y' m' :
  (u = UM \/ u = UQ \/ u = UY) -> 1 <= k -> ymd_of_ord (ord_of_us t) = (y, m, d) ->
  month_target u y m k = (y', m') -> 1 <= y' <= 9999 ->
  bump1 t (k, u) = Some t' -> t + 27 * DAYUS < t'.
Proof. exact (month_bump_progress u t k t' y m d y' m'). Qed.
Print Assumptions C10_month_bumps_progress.

Example C10_example :
  let t0 := us_of_ord 737504 in let t1 := us_of_ord 737439 in   (* 2020-03-20 back to 2020-01-15 *)
  drange 100 t0 t1 (BTok [(-1, UM)]) = Ok [us_of_ord 737504; us_of_ord 737475; us_of_ord 737444] /\
  drange 100 t0 t1 (BTok [(1, UM)]) = Raise /\
  drange 100 t0 (us_of_ord 737508) (BTok [(1, UB)]) = Ok (map us_of_ord [737504; 737507; 737508]).
Proof. vm_compute. repeat split; reflexivity. Qed.
