(* C20 — perdictable evaluates a function once per row of the keyed join of its inputs.
   Property theorems only; each is closed by a lemma of proofs/P_perdict.v.  They hold for EVERY
   function f, any number of inputs, any key sets, any data / expiry assignment.
   perdict f args d x = (what the lifted call returns, the list of calls of f it made). *)
From Coq Require Import ZArith List Bool Lia Permutation Sorted.
From PB Require Import model.M_join model.M_perdict proofs.P_perdict.
Import ListNotations.
Open Scope Z_scope.

Section AnyFunction.
  Variable f : list pval -> pval.

  (* all inputs scalars: the call returns f(...) itself, evaluated once on those scalars *)
  Theorem C20_scalar_passthrough args d x : any_table args d x = false ->
    perdict f args d x = (RScalar (f (row_args args [])), [([], row_args args [])]) /\
    (forall a v, In a args -> a_in a = Scalar v -> arg_value [] a = v).
  Proof. intros H. split; [exact (scalar_passthrough f args d x H) | intros a v _; apply scalar_broadcast]. Qed.

  (* scalars broadcast: every row receives the scalar WHOLE, whatever its kind - a list / tuple valued scalar
     (VList) is not spread over the rows, not even when its length equals the number of rows *)
  Theorem C20_scalars_broadcast_whole k a v : a_in a = Scalar v -> arg_value k a = v.
  Proof. apply scalar_broadcast. Qed.

  (* a key gets a row iff it is present in every table input that has no default (and in some table at all);
     membership of keys is up to cmp-equality (1 ~ 1.0) *)
  Theorem C20_rows_are_common_keys args d x :
    (forall k, In k (result_keys args d x) ->
       (forall a, In a (nondef args) -> ahas k a = true) /\ In k (all_keys args d x)) /\
    (forall k, In k (all_keys args d x) -> (forall a, In a (nondef args) -> ahas k a = true) ->
       exists k', In k' (result_keys args d x) /\ tkeq k k' = true).
  Proof. split; [exact (keys_sound args d x) | exact (keys_complete args d x)]. Qed.

  Theorem C20_sorted_by_key args d x : StronglySorted (fun a b => tcmp a b <= 0) (result_keys args d x).
  Proof. apply ksort_sorted. Qed.

  (* an input named in defaults never removes a key, and contributes its default where it lacks the key;
     where it has the key it contributes the value stored under an equal key; scalars broadcast *)
  Theorem C20_defaults_extend k a rows dv :
    a_in a = Table rows -> a_def a = Some dv ->
    (forall args, ~ In a (nondef args)) /\ (ahas k a = false -> arg_value k a = dv) /\
    (ahas k a = true -> exists k' v, In (k', v) rows /\ tkeq k k' = true /\ arg_value k a = v).
  Proof.
    intros T D. split; [|split].
    - intros args I. apply nondef_in in I. destruct I as (_ & _ & N). congruence.
    - exact (default_extends k a rows dv T D).
    - exact (present_value k a rows T).
  Qed.

  (* the table returned: one row per result key, in that order; value = f of the row's arguments unless
     the row is expired, and the calls made are exactly the rows needing evaluation *)
  Theorem C20_value_is_f_of_row args d x : any_table args d x = true -> result_keys args d x <> [] ->
    perdict f args d x =
    (RTable (map (fun k => (k, if runs d x k then f (row_args args k) else cache_of d k)) (result_keys args d x)),
     map (fun k => (k, row_args args k)) (filter (runs d x) (result_keys args d x))).
  Proof. exact (table_result f args d x). Qed.

  (* expired rows (a value was supplied and the expiry is in the past) keep the supplied value, f is not called *)
  Theorem C20_expired_kept_not_called args d x k : any_table args d x = true ->
    In k (result_keys args d x) -> d <> None -> exp_of x k = EPast ->
    exists rows trace, perdict f args d x = (RTable rows, trace) /\ In (k, cache_of d k) rows /\ ~ In k (map fst trace).
  Proof.
    intros AT I DN EX. assert (R : runs d x k = false) by (apply runs_iff; auto).
    assert (NE : result_keys args d x <> []) by (intros E; rewrite E in I; destruct I).
    rewrite (table_result f args d x AT NE). do 2 eexists. split; [reflexivity|]. split.
    - apply in_map_iff. exists k. rewrite R. auto.
    - rewrite map_map. simpl. rewrite map_id. rewrite filter_In. rewrite R. intros [_ X]. discriminate.
  Qed.

  (* every other row is computed exactly once: the trace is duplicate free and holds exactly those keys *)
  Theorem C20_others_called_exactly_once args d x : any_table args d x = true -> result_keys args d x <> [] ->
    (forall a, In a args -> NoDup (tkeys a)) ->
    exists rows trace, perdict f args d x = (RTable rows, trace) /\
      NoDup (map fst trace) /\
      (forall k, In k (map fst trace) <-> In k (result_keys args d x) /\ ~ (d <> None /\ exp_of x k = EPast)) /\
      (forall k a, In (k, a) trace -> a = row_args args k /\ In (k, f a) rows).
  Proof.
    intros AT NE U. rewrite (table_result f args d x AT NE). do 2 eexists. split; [reflexivity|].
    rewrite map_map. simpl. rewrite map_id. split; [|split].
    - apply NoDup_filter. apply keys_nodup. exact U.
    - intros k. rewrite filter_In. rewrite <- runs_iff. destruct (runs d x k); split; intros [A B]; split; auto; congruence.
    - intros k a I. apply in_map_iff in I. destruct I as (k0 & E & I). inversion E; subst.
      apply filter_In in I. destruct I as [I R]. split; auto. apply in_map_iff. exists k. rewrite R. auto.
  Qed.

  (* no common key: nothing is computed (the call hands back the supplied data, or None) *)
  Theorem C20_empty_join_no_calls args d x : any_table args d x = true -> result_keys args d x = [] ->
    snd (perdict f args d x) = [].
  Proof. intros AT E. rewrite (empty_result f args d x AT E). reflexivity. Qed.
End AnyFunction.
Print Assumptions C20_scalar_passthrough.
Print Assumptions C20_scalars_broadcast_whole.
Print Assumptions C20_rows_are_common_keys.
Print Assumptions C20_sorted_by_key.
Print Assumptions C20_defaults_extend.
Print Assumptions C20_value_is_f_of_row.
Print Assumptions C20_expired_kept_not_called.
Print Assumptions C20_others_called_exactly_once.
Print Assumptions C20_empty_join_no_calls.

(* ------------------------------------------------------------------ functions with named outputs (_dict_output)
   f returns a record of outputs; caches holds, per output, the previously computed values (None = not
   supplied).  perdictN f args caches x = (what the call returns, the calls of f).  The same clauses: *)
Section AnyRecordFunction.
  Variable f : list pval -> list pval.

  Theorem C20_dict_output_scalar_passthrough args caches x : any_tableN args caches x = false ->
    perdictN f args caches x = (NScalar (f (row_args args [])), [([], row_args args [])]).
  Proof. exact (scalar_passthroughN f args caches x). Qed.

  (* key set: every non-default table input must hold the key; caches and expiry only add keys when no such input exists *)
  Theorem C20_dict_output_rows_are_common_keys args caches x :
    (forall k, In k (keysN args caches x) ->
       (forall a, In a (nondef args) -> ahas k a = true) /\ In k (flat_map tkeys args ++ flat_map dkeys caches ++ xkeys x)) /\
    (forall k, In k (flat_map tkeys args ++ flat_map dkeys caches ++ xkeys x) -> (forall a, In a (nondef args) -> ahas k a = true) ->
       exists k', In k' (keysN args caches x) /\ tkeq k k' = true).
  Proof. split; [exact (keysN_sound args caches x) | exact (keysN_complete args caches x)]. Qed.

  Theorem C20_dict_output_sorted_by_key args caches x : StronglySorted (fun a b => tcmp a b <= 0) (keysN args caches x).
  Proof. apply keysN_sorted. Qed.

  (* one row per key, in order; the record is f of the row's arguments (defaults / broadcast as in C20_defaults_extend,
     which speaks about arg_value and applies unchanged) unless the row is expired *)
  Theorem C20_dict_output_value_is_f_of_row args caches x : any_tableN args caches x = true -> keysN args caches x <> [] ->
    perdictN f args caches x =
    (NTable (map (fun k => (k, if runsN caches x k then f (row_args args k) else cachesN caches k)) (keysN args caches x)),
     map (fun k => (k, row_args args k)) (filter (runsN caches x) (keysN args caches x))).
  Proof. exact (table_resultN f args caches x). Qed.

  (* expired = a value was supplied for EVERY output and the expiry is in the past: every output keeps the supplied
     value (None where the cache lacks the key) and f is not called for the row *)
  Theorem C20_dict_output_expired_kept_not_called args caches x k : any_tableN args caches x = true ->
    In k (keysN args caches x) -> forallb supplied caches = true -> exp_of x k = EPast ->
    exists rows trace, perdictN f args caches x = (NTable rows, trace) /\
      In (k, map (fun d => cache_of d k) caches) rows /\ ~ In k (map fst trace).
  Proof.
    intros AT I SU EX. assert (R : runsN caches x k = false) by (apply runsN_iff; auto).
    assert (NE : keysN args caches x <> []) by (intros E; rewrite E in I; destruct I).
    rewrite (table_resultN f args caches x AT NE). do 2 eexists. split; [reflexivity|]. split.
    - apply in_map_iff. exists k. rewrite R. auto.
    - rewrite map_map. simpl. rewrite map_id. rewrite filter_In. rewrite R. intros [_ X]. discriminate.
  Qed.

  Theorem C20_dict_output_others_called_exactly_once args caches x :
    any_tableN args caches x = true -> keysN args caches x <> [] ->
    (forall a, In a args -> NoDup (tkeys a)) -> (forall d, In d caches -> NoDup (dkeys d)) ->
    exists rows trace, perdictN f args caches x = (NTable rows, trace) /\
      NoDup (map fst trace) /\
      (forall k, In k (map fst trace) <-> In k (keysN args caches x) /\ ~ (forallb supplied caches = true /\ exp_of x k = EPast)) /\
      (forall k a, In (k, a) trace -> a = row_args args k /\ In (k, f a) rows).
  Proof.
    intros AT NE U V. rewrite (table_resultN f args caches x AT NE). do 2 eexists. split; [reflexivity|].
    rewrite map_map. simpl. rewrite map_id. split; [|split].
    - apply NoDup_filter. apply keysN_nodup; assumption.
    - intros k. rewrite filter_In. rewrite <- runsN_iff. destruct (runsN caches x k); split; intros [A B]; split; auto; congruence.
    - intros k a I. apply in_map_iff in I. destruct I as (k0 & E & I). inversion E; subst.
      apply filter_In in I. destruct I as [I R]. split; auto. apply in_map_iff. exists k. rewrite R. auto.
  Qed.

  Theorem C20_dict_output_empty_join_no_calls args caches x : any_tableN args caches x = true -> keysN args caches x = [] ->
    perdictN f args caches x = (NEmpty caches, []).
  Proof. exact (empty_resultN f args caches x). Qed.
End AnyRecordFunction.
Print Assumptions C20_dict_output_scalar_passthrough.
Print Assumptions C20_dict_output_rows_are_common_keys.
Print Assumptions C20_dict_output_sorted_by_key.
Print Assumptions C20_dict_output_value_is_f_of_row.
Print Assumptions C20_dict_output_expired_kept_not_called.
Print Assumptions C20_dict_output_others_called_exactly_once.
Print Assumptions C20_dict_output_empty_join_no_calls.

(* the plain-function path is the one-output instance: both paths are one model *)
Theorem C20_value_path_is_one_output (f : list pval -> pval) args d x :
  perdictN (fun l => [f l]) args [d] x = (lift1 (fst (perdict f args d x)), snd (perdict f args d x)).
Proof. exact (value_path_is_one_output f args d x). Qed.
Print Assumptions C20_value_path_is_one_output.

Example C20_dict_output_example :
  let K s := [CStr [s]] in
  let a := mkArg (Table [(K 120, VInt 1); (K 121, VInt 2); (K 122, VInt 3)]) None in
  let b := mkArg (Table [(K 122, VInt 5); (K 121, VInt 4); (K 119, VInt 6)]) None in
  let p := Some [(K 121, VInt 500); (K 122, VInt 600)] in let q := Some [(K 121, VInt 501)] in
  let x := XTable [(K 121, EPast); (K 122, EPast)] in
  (* both outputs supplied: y and z expired, nothing is called, q of z is None *)
  perdictN (fouts 2) [a; b] [p; q] x = (NTable [(K 121, [VInt 500; VInt 501]); (K 122, [VInt 600; VNone])], []) /\
  (* q not supplied: every row is recomputed once *)
  perdictN (fouts 2) [a; b] [p; None] x =
    (NTable [(K 121, [VInt 10042; VInt 20042]); (K 122, [VInt 10053; VInt 20053])], [(K 121, [VInt 2; VInt 4]); (K 122, [VInt 3; VInt 5])]).
Proof. vm_compute. auto. Qed.

(* partially keyed inputs (an input carrying only some of the `on` columns; join docstring "joins with partial columns"):
   one step of the defaults fold keeps every matched pair, and every row of either side that found no partner survives
   carrying the other side's defaults - "keys a defaulted input lacks receive its default value", whatever the row counts.
   The whole fold (pjoinP / perdictP) is tied to the code by the correspondence; this is the clause the fold is built from. *)
Theorem C20_partial_keys_defaults_step d1 d2 f1 f2 :
  exists m rows, fst (pouter (Some d1, f1) (Some d2, f2)) = Some (m, rows) /\
    (forall r, In r (snd (pmul d1 d2)) -> In r rows) /\
    (f2 <> [] -> forall r, In r (snd d1) ->
       In (setdefs f2 r) rows \/ exists r2, In r2 (snd d2) /\ kmatch (fst d1) (fst d2) (fst r) (fst r2) = true) /\
    (f1 <> [] -> forall r, In r (snd d2) ->
       In (setdefs f1 r) rows \/ exists r1, In r1 (snd d1) /\ kmatch (fst d2) (fst d1) (fst r) (fst r1) = true).
Proof.
  destruct (pouter_rows d1 d2 f1 f2) as (m & rows & E & A & B & C). exists m, rows. split; [exact E|]. split; [exact A|]. split.
  - intros N r I. destruct (panti_or_matched d1 d2 r I) as [X|X]; [left; apply B; auto | right; exact X].
  - intros N r I. destruct (panti_or_matched d2 d1 r I) as [X|X]; [left; apply C; auto | right; exact X].
Qed.
Print Assumptions C20_partial_keys_defaults_step.

(* non-vacuous: inner keys {y,z} of {x,y,z} x {y,z,w}; b with a default turns it into a left join;
   y is cached with a past expiry (kept, not called), z has a future expiry (recomputed once) *)
Example C20_example :
  let K s := [CStr [s]] in
  let a := mkArg (Table [(K 120, VInt 1); (K 121, VInt 2); (K 122, VInt 3)]) None in
  let b := mkArg (Table [(K 122, VInt 5); (K 121, VInt 4); (K 119, VInt 6)]) None in
  let b' := mkArg (Table [(K 122, VInt 5); (K 121, VInt 4); (K 119, VInt 6)]) (Some (VInt 0)) in
  let d := Some [(K 121, VInt 500); (K 122, VInt 600)] in
  let x := XTable [(K 121, EPast); (K 122, EFuture)] in
  perdict fdigits [a; b] None XAbsent = (RTable [(K 121, VInt 42); (K 122, VInt 53)], [(K 121, [VInt 2; VInt 4]); (K 122, [VInt 3; VInt 5])]) /\
  fst (perdict fdigits [a; b'] None XAbsent) = RTable [(K 120, VInt 1); (K 121, VInt 42); (K 122, VInt 53)] /\
  perdict fdigits [a; b] d x = (RTable [(K 121, VInt 500); (K 122, VInt 53)], [(K 122, [VInt 3; VInt 5])]).
Proof. vm_compute. auto. Qed.
