(* C04 — dt() maps every supported spelling of an instant to the same datetime.
   Stated for every calendar date of years 1..9999 (the property asks for 1900..2300).
   Gen_dates.* is the Gallina text regenerated from /repo/src/pyg_base/_dates.py. *)
From Coq Require Import ZArith List Bool Lia.
From PB Require Import model.M_cal model.M_dates model.M_dtparse proofs.P_cal proofs.P_dates_m proofs.P_dates_gen proofs.P_dtparse.
From PB Require gen.Gen_dates.
Open Scope Z_scope.

(* the calendar itself: ordinal <-> (y, m, d) is a bijection, for every ordinal and every valid date *)
Theorem C04_ord_roundtrip n :
  let '(y, m, d) := ymd_of_ord n in valid_md y m d = true /\ ord_of_ymd y m d = n.
Proof. exact (ymd_of_ord_valid n). Qed.
Print Assumptions C04_ord_roundtrip.
Theorem C04_ymd_roundtrip y m d : valid_md y m d = true -> ymd_of_ord (ord_of_ymd y m d) = (y, m, d).
Proof. exact (ymd_of_ord_of_ymd y m d). Qed.
Print Assumptions C04_ymd_roundtrip.

(* dt(y, m, d) *)
Theorem C04_tuple y m d : 1 <= y <= 9999 -> valid_md y m d = true ->
  Gen_dates.u_ymd y m d = Some (us_of_ord (ord_of_ymd y m d)).
Proof. intros Hy V. rewrite gen_ymd. exact (ymd_us_valid y m d Hy V). Qed.
Print Assumptions C04_tuple.

(* dt(y, m, d) with month / day outside the calendar range: first day of the normalised month + d-1 days *)
Theorem C04_overflow y m d : d <= 1500 -> let '(y', m') := ym y m in 1 <= y' <= 9999 ->
  Gen_dates.u_ymd y m d = Some (us_of_ord (ord_of_ymd y' m' 1) + (d - 1) * DAYUS) /\ 1 <= m' <= 12.
Proof.
  pose proof (tuple_overflow y m d) as T. pose proof (ym_range y m) as R. destruct (ym y m) as [y' m'].
  intros Hd Hy. rewrite gen_ymd. split; [exact (T Hd Hy) | exact R].
Qed.
Print Assumptions C04_overflow.

(* dt(yyyymmdd) and dt(ordinal) through the generated num2dt; `today` is irrelevant for n > 1500 *)
Theorem C04_yyyymmdd_int today y m d : 1001 <= y <= 2999 -> valid_md y m d = true ->
  Gen_dates.num2dt today (y * 10000 + m * 100 + d) = Some (us_of_ord (ord_of_ymd y m d)).
Proof.
  intros Hy V. destruct (valid_md_bounds y m d V). rewrite gen_num2dt by lia. exact (num_yyyymmdd y m d Hy V).
Qed.
Print Assumptions C04_yyyymmdd_int.
Theorem C04_ordinal_int today n : 300000 <= n < 1095000 -> Gen_dates.num2dt today n = Some (us_of_ord n).
Proof. intros H. rewrite gen_num2dt by lia. exact (num_ordinal n H). Qed.
Print Assumptions C04_ordinal_int.

(* day-month-year under the UK dialect, month-day-year under the US dialect *)
Theorem C04_uk_dmy y m d : 1 <= y <= 9999 -> valid_md y m d = true ->
  dt_model (SpDMY false d m y) = Some (us_of_ord (ord_of_ymd y m d)).
Proof. exact (uk_dmy y m d). Qed.
Print Assumptions C04_uk_dmy.
Theorem C04_us_mdy y m d : 1 <= y <= 9999 -> valid_md y m d = true ->
  dt_model (SpDMY true m d y) = Some (us_of_ord (ord_of_ymd y m d)).
Proof. exact (us_mdy y m d). Qed.
Print Assumptions C04_us_mdy.
(* an unambiguous string (day > 12) written in the other dialect is rejected, never swapped *)
Theorem C04_cross_dialect_rejected y m d : 1 <= y <= 9999 -> valid_md y m d = true -> 12 < d ->
  dt_model (SpDMY false m d y) = None /\ dt_model (SpDMY true d m y) = None.
Proof. exact (cross_dialect_rejected y m d). Qed.
Print Assumptions C04_cross_dialect_rejected.

(* dt(dt2str(t)) == t and ymd() drops the time of day *)
Theorem C04_dt2str_roundtrip t : 1 <= year_of t <= 9999 -> dt_model (dt2str_model t) = Some t.
Proof. exact (dt2str_roundtrip t). Qed.
Print Assumptions C04_dt2str_roundtrip.
Theorem C04_ymd_drops_time t : ord_of_us (ymd_model t) = ord_of_us t /\ tod_of_us (ymd_model t) = 0.
Proof. exact (ymd_drops_time t). Qed.
Print Assumptions C04_ymd_drops_time.

Example C04_example :
  valid_md 2000 2 29 = true /\ ord_of_ymd 2000 2 29 = 730179 /\
  dt_model (SpDMY false 29 2 2000) = Some (us_of_ord 730179) /\ dt_model (SpDMY true 29 2 2000) = None /\
  dt_model (SpNum 20000229) = Some (us_of_ord 730179) /\ dt_model (SpTuple 2000 14 (-3)) = Some (us_of_ord (ord_of_ymd 2001 1 28)).
Proof. vm_compute. repeat split; reflexivity. Qed.
