(* C07 (and reused by C11): executable model of pyg_base._sort.cmp / Cmp / sort and of dictable.sort.
   Definitions only; proofs are in proofs/P_sort.v.

   val     : the mixed-type universe of the property (scalars and nested tuples / lists / dicts).
             A finite number is twice/2 (generators emit half-integers of magnitude < 2^50 so python floats are exact);
             numpy scalars / datetime.date are mapped by the harness to the primitive as_primitive gives them.
   cmp     : transcribes _sort.cmp: ints -> float, rank of str(type(x)), len0, dicts by items sorted by cmp of their keys (keys, then values; keys of any type),
             NaN above every number (-inf < finite < +inf < NaN), containers lexicographic (zip), else native <.
             One REPAIRED point: two (distinct) empty dicts compare 0 (the pinned code raises ValueError from
             `xk, xv = zip( *sorted(x.items()))`; see fixes/C07.patch).
   sort    : REPAIRED behaviour of _sort.sort on the property's domain (None, ints, finite floats, NaN, str, datetimes and
             equal-length tuples of them): sorted(iterable, key = Cmp), i.e. a stable sort by cmp. On that domain the native
             order coincides with cmp whenever the native path is taken and no NaN is present; the pinned code takes the native
             path also when a NaN is present (sorted raises no TypeError) and then returns garbage: sort([nan,0]) = [nan,0].
   dsort   : dictable.sort: decorate keys with the row index, sort, undecorate, gather every column at the sorted indices. *)
From Coq Require Import ZArith List Bool.
Import ListNotations.
Open Scope Z_scope.

Inductive val :=
| VNone
| VBool (b : bool)
| VNum (isfloat : bool) (twice : Z)
| VNaN (id : N)
| VInf (neg : bool)
| VStr (s : list N)
| VDate (us : Z)
| VTuple (l : list val)
| VList (l : list val)
| VDict (items : list (val * val)).        (* (key, value) in insertion order; keys are any hashable values *)

(* ---- comparisons as [comparison]; cmp maps to -1/0/1 at the end *)
Definition c2z (c : comparison) : Z := match c with Lt => -1 | Eq => 0 | Gt => 1 end.

(* lexicographic composition: first c1, on a tie c2 *)
Definition thenc (c1 c2 : comparison) : comparison := match c1 with Eq => c2 | r => r end.

(* python str order: lexicographic on code points, a proper prefix is smaller *)
Fixpoint cmp_str (a b : list N) : comparison :=
  match a, b with
  | [], [] => Eq
  | [], _ => Lt
  | _, [] => Gt
  | x :: a', y :: b' => thenc (N.compare x y) (cmp_str a' b')
  end.

(* cmparr: first non-zero comparison along zip(x, y) *)
Section Lex.
  Context {A B : Type} (p : A -> B) (c : B -> B -> comparison).
  Fixpoint lexp (a b : list A) : comparison :=
    match a, b with
    | x :: a', y :: b' => thenc (c (p x) (p y)) (lexp a' b')
    | _, _ => Eq
    end.
End Lex.
Definition lexz {A} (c : A -> A -> comparison) := lexp (fun x : A => x) c.


(* rank of str(type(x)): NoneType < bool < datetime.datetime < dict < float < list < str < tuple *)
Definition rank (v : val) : Z :=
  match v with
  | VNone => 0 | VBool _ => 1 | VDate _ => 2 | VDict _ => 3
  | VNum _ _ | VNaN _ | VInf _ => 4
  | VList _ => 5 | VStr _ => 6 | VTuple _ => 7
  end.
Definition len0 (v : val) : Z :=
  match v with
  | VTuple l | VList l => Z.of_nat (length l)
  | VDict l => Z.of_nat (length l)
  | _ => 0
  end.
(* numbers on the extended line: -inf < every finite number < +inf < NaN (a float NaN ties with any NaN and ranks above every
   number, +inf included; since fixes/C07-inf.patch +-inf compare by value - the pinned code sent NaN and +-inf alike to +inf) *)
Inductive ekey := ENegInf | EFin (t : Z) | EPosInf | ENaN.
Definition numkey (v : val) : ekey :=
  match v with VNum _ t => EFin t | VInf true => ENegInf | VInf false => EPosInf | _ => ENaN end.
Definition erank (k : ekey) : Z := match k with ENegInf => 0 | EFin _ => 1 | EPosInf => 2 | ENaN => 3 end.
Definition cmp_ext (a b : ekey) : comparison :=
  match a, b with
  | EFin x, EFin y => Z.compare x y
  | _, _ => Z.compare (erank a) (erank b)
  end.

Definition body_scalar (x y : val) : comparison :=
  match x, y with
  | VNone, VNone => Eq
  | VBool a, VBool b => Z.compare (Z.b2z a) (Z.b2z b)
  | VDate a, VDate b => Z.compare a b
  | VStr a, VStr b => cmp_str a b
  | _, _ => cmp_ext (numkey x) (numkey y)
  end.

(* cmp on values whose dicts are already in sorted-key order (keys compared by cmp itself, then the values) *)
Fixpoint cmpn (x y : val) {struct x} : comparison :=
  thenc (Z.compare (rank x) (rank y))
 (thenc (Z.compare (len0 x) (len0 y))
   match x, y with
   | VTuple a, VTuple b => lexz cmpn a b
   | VList a, VList b => lexz cmpn a b
   | VDict a, VDict b => thenc (lexp fst cmpn a b) (lexp snd cmpn a b)
   | _, _ => body_scalar x y
   end).

(* sorted(x.items(), key = lambda item: Cmp(item[0])): a stable sort of the items by cmp of their keys (keys of mixed types allowed) *)
Fixpoint ins_item (kv : val * val) (l : list (val * val)) : list (val * val) :=
  match l with
  | [] => [kv]
  | kv' :: l' => match cmpn (fst kv) (fst kv') with Gt => kv' :: ins_item kv l' | _ => kv :: l end
  end.
Definition sort_items (l : list (val * val)) := fold_right ins_item [] l.

(* every dict, at every depth, with its items in sorted-key order *)
Fixpoint norm (v : val) : val :=
  match v with
  | VTuple l => VTuple (map norm l)
  | VList l => VList (map norm l)
  | VDict items => VDict (sort_items (map (fun kv => let '(k, x) := kv in (norm k, norm x)) items))
  | _ => v
  end.

Definition cmpc (x y : val) : comparison := cmpn (norm x) (norm y).
Definition cmp (x y : val) : Z := c2z (cmpc x y).

(* ---- sorted(..., key = Cmp): a stable sort; modelled as insertion sort (python's sort is stable, which
        determines the result uniquely once the order is a total preorder) *)
Section ISort.
  Context {A : Type} (le : A -> A -> bool).
  Fixpoint insert (x : A) (l : list A) : list A :=
    match l with
    | [] => [x]
    | y :: l' => if le x y then x :: l else y :: insert x l'
    end.
  Definition isort (l : list A) : list A := fold_right insert [] l.
End ISort.
Definition cmp_le (x y : val) : bool := cmp x y <=? 0.
Definition sort (l : list val) : list val := isort cmp_le l.

(* ---- tables: the dict of lists, columns in insertion order *)
Definition colname := list N.
Definition table := list (colname * list val).
Definition arow := list (colname * val).               (* `for row in self`: Dict(zip(keys, row)) *)
Definition nrows (t : table) : nat := match t with [] => 0 | (_, vs) :: _ => length vs end.
Definition rect (n : nat) (t : table) : Prop := Forall (fun cv => length (snd cv) = n) t.
Definition row (t : table) (i : nat) : arow := map (fun cv => (fst cv, nth i (snd cv) VNone)) t.
Definition rows (t : table) : list arow := map (row t) (seq 0 (nrows t)).
Definition gather {X} (d : X) (vs : list X) (idx : list nat) : list X := map (fun i => nth i vs d) idx.
Definition permute (t : table) (idx : list nat) : table := map (fun cv => (fst cv, gather VNone (snd cv) idx)) t.

Fixpoint lookup (r : arow) (c : colname) : val :=
  match r with
  | [] => VNone
  | (c', v) :: r' => match cmp_str c c' with Eq => v | _ => lookup r' c end
  end.

(* keys2id = list(zip(keys, range(len(self)))); _, rows = zip( *sort(keys2id)) *)
Definition vidx (i : nat) : val := VNum false (2 * Z.of_nat i).
Definition decorate1 (ki : val * nat) : val := VTuple [fst ki; vidx (snd ki)].
Definition idx_of (v : val) : nat := match v with VTuple [_; VNum _ t] => Z.to_nat (t / 2) | _ => 0%nat end.
Definition decorate (ks : list val) : list val := map decorate1 (combine ks (seq 0 (length ks))).
Definition dsort_idx (ks : list val) : list nat := map idx_of (sort (decorate ks)).

(* generic dictable.sort given the key of a row *)
Definition dsort_with (kf : arow -> val) (t : table) : table :=
  match nrows t with
  | O => t
  | _ => permute t (dsort_idx (map kf (rows t)))
  end.

(* sort( *by): a key is the tuple of the named cells, or of a function of a cell (d.sort(lambda b: ...)) *)
Inductive kfun := FNeg | FMod3 | FConst.
Inductive keyspec := KCol (c : colname) | KFun (f : kfun) (c : colname) | KFun2 (c1 c2 : colname).   (* KFun2: lambda c1, c2: c1 + c2 *)
Definition apply_kfun (f : kfun) (v : val) : val :=
  match f, v with
  | FNeg, VNum fl t => VNum fl (- t)
  | FMod3, VNum false t => VNum false (2 * ((t / 2) mod 3))
  | FConst, _ => VNum false 0
  | _, _ => VNone
  end.
Definition key_by (by_ : list keyspec) (r : arow) : val :=
  VTuple (map (fun k => match k with
                        | KCol c => lookup r c
                        | KFun f c => apply_kfun f (lookup r c)
                        | KFun2 c1 c2 => match lookup r c1, lookup r c2 with VNum false a, VNum false b => VNum false (a + b) | _, _ => VNone end
                        end) by_).
Definition dsort_by (by_ : list keyspec) (t : table) : table :=
  match by_ with [] => t | _ => dsort_with (key_by by_) t end.

(* sort( **byval): dicts = {k: dict(zip(vals, range(len(vals))))}; key = [d.get(row[k], len(d)) ...].
   dict lookups go by == (1 == 1.0); the later duplicate wins the index, len(d) counts distinct values. *)
Definition elem_eqb (x y : val) : bool :=
  match x, y with
  | VNone, VNone => true
  | VNum _ a, VNum _ b => a =? b
  | VStr a, VStr b => match cmp_str a b with Eq => true | _ => false end
  | VDate a, VDate b => a =? b
  | VNaN i, VNaN j => N.eqb i j          (* identity, as used by `in` / tuple == / dict lookup *)
  | VInf a, VInf b => Bool.eqb a b
  | _, _ => false
  end.
Fixpoint last_index (x : val) (vals : list val) (i : Z) : option Z :=
  match vals with
  | [] => None
  | v :: vals' => match last_index x vals' (i + 1) with Some j => Some j | None => if elem_eqb x v then Some i else None end
  end.
Fixpoint ndistinct (vals : list val) : Z :=
  match vals with
  | [] => 0
  | v :: vals' => (if existsb (elem_eqb v) vals' then 0 else 1) + ndistinct vals'
  end.
Definition vrank (vals : list val) (x : val) : Z :=
  match last_index x vals 0 with Some j => j | None => ndistinct vals end.
Definition key_byval (bv : list (colname * list val)) (r : arow) : val :=
  VList (map (fun cv => VNum false (2 * vrank (snd cv) (lookup r (fst cv)))) bv).
Definition dsort_byval (bv : list (colname * list val)) (t : table) : table :=
  match bv with [] => t | _ => dsort_with (key_byval bv) t end.

(* the order a stable sort by key must realise on row indices *)
Definition key_lt (ks : list val) (i j : nat) : Prop :=
  cmp (nth i ks VNone) (nth j ks VNone) < 0 \/ (cmp (nth i ks VNone) (nth j ks VNone) = 0 /\ (i < j)%nat).
