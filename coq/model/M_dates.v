(* Hand-written model of pyg_base._dates date arithmetic (dt_bump and the
   month-overflow constructor).  Datetimes are microsecond Z (M_cal).  Definitions only. *)
From Coq Require Import ZArith List Bool.
From PB Require Import model.M_cal.
Import ListNotations.
Open Scope Z_scope.

Definition ym (y m : Z) : Z * Z := (y + (m - 1) / 12, 1 + (m - 1) mod 12).

(* _ymd: year/day swap heuristic, month normalisation, first of month + (d-1) days *)
Definition ymd_us (y m d : Z) : option Z :=
  let swap := (1500 <? d) && (d <? 3000) && (0 <? y) && (y <? 32) && (0 <? m) && (m <? 13) in
  let y' := if swap then d else y in
  let d' := if swap then y else d in
  let '(y2, m2) := ym y' m in
  match mk_datetime y2 m2 1 with
  | Some t => Some (t + (d' - 1) * DAYUS)
  | None => None
  end.

(* business-day closed form: number of calendar days to add from weekday w *)
Definition delta_b (w n : Z) : Z :=
  let roll := if 4 <? w then 7 - w else 0 in
  let w' := if 4 <? w then 0 else w in
  let q := n / 5 in
  let d := n - q * 5 in
  roll + 7 * q + (if 4 <? w' + d then d + 2 else d).
Definition bump_b (t n : Z) : Z := t + DAYUS * delta_b (weekday t) n.

Inductive unit_ := UD | UW | UM | UQ | UY | UH | UN | US | UB.
Definition bump1 (t : Z) (tok : Z * unit_) : option Z :=
  let '(k, u) := tok in
  match u with
  | UD => Some (t + DAYUS * k)
  | UW => Some (t + DAYUS * (7 * k))
  | UH => Some (t + 3600000000 * k)
  | UN => Some (t + 60000000 * k)
  | US => Some (t + 1000000 * k)
  | UB => Some (bump_b t k)
  | UM => ymd_us (year_of t) (month_of t + k) (day_of t)
  | UQ => ymd_us (year_of t) (month_of t + 3 * k) (day_of t)
  | UY => ymd_us (year_of t + k) (month_of t) (day_of t)
  end.
(* a tenor string such as '1y-3m2d' is the token list [(1,UY); (-3,UM); (2,UD)] *)
Fixpoint dt_bump (t : Z) (toks : list (Z * unit_)) : option Z :=
  match toks with
  | [] => Some t
  | tok :: rest => match bump1 t tok with Some t' => dt_bump t' rest | None => None end
  end.

(* ---- specification side: one weekday at a time ---- *)
Definition roll_monday (t : Z) : Z := if 4 <? weekday t then t + DAYUS * (7 - weekday t) else t.
Definition next_wd (t : Z) : Z := if weekday t =? 4 then t + DAYUS * 3 else t + DAYUS.
Definition prev_wd (t : Z) : Z := if weekday t =? 0 then t - DAYUS * 3 else t - DAYUS.
Definition nth_wd (t n : Z) : Z :=
  if 0 <=? n then Nat.iter (Z.to_nat n) next_wd t else Nat.iter (Z.to_nat (- n)) prev_wd t.
