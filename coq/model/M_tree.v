(* C15 - model of the tree functions of pyg_base._dict / _tree / _table_to_tree
   (repaired behaviour with cow = true, the pinned behaviour with cow = false; see fixes/C15.patch).
   Definitions only.

   A tree is a nest of dicts.  Every branch (dict object) carries
     own : bool  - true  = the object was allocated by the call being modelled (copy(..) or base()),
                   false = the object belongs to an operand (it is reachable from the caller's t)
     cls : N     - 0 dict, 1 Dict, 2 dictattr
   In-place assignment res[k] = .. into a branch is modelled functionally on the working tree and
   additionally reported when the branch written to has own = false: that is a write through a
   reference shared with the operand, i.e. the operand is modified.  (The working tree never holds
   the same object twice and the operands are never read after the first write - tree_items(update)
   is taken before - so threading the working tree is exact.)  Leaves are M_eq.val. *)
From Coq Require Import ZArith NArith List Bool String.
From PB Require Import model.M_eq.
Import ListNotations.

Inductive tree := Leaf (v : val) | Node (own : bool) (cls : N) (kids : list (string * tree)).
Definition item := (list string * val)%type.

Fixpoint kset {A} (k : string) (v : A) (l : list (string * A)) : list (string * A) :=
  match l with
  | [] => [(k, v)]
  | h :: t => if String.eqb k (fst h) then (k, v) :: t else h :: kset k v t
  end.

(* ------------------------------------------------------------------ flatten *)
Fixpoint tree_items (t : tree) : list item :=
  match t with
  | Leaf v => [([], v)]
  | Node _ _ kids => flat_map (fun kv => map (fun it => (fst kv :: fst it, snd it)) (tree_items (snd kv))) kids
  end.
Fixpoint tree_keys (t : tree) : list (list string) :=
  match t with
  | Leaf _ => [[]]
  | Node _ _ kids => flat_map (fun kv => map (cons (fst kv)) (tree_keys (snd kv))) kids
  end.
Fixpoint tree_values (t : tree) : list val :=
  match t with
  | Leaf v => [v]
  | Node _ _ kids => flat_map (fun kv => tree_values (snd kv)) kids
  end.
(* None = KeyError / TypeError *)
Fixpoint tree_getitem (t : tree) (path : list string) : option tree :=
  match path with
  | [] => Some t
  | k :: rest => match t with
                 | Node _ _ kids => match lookup k kids with Some c => tree_getitem c rest | None => None end
                 | Leaf _ => None
                 end
  end.

(* ------------------------------------------------------------------ _tree_setitem
   path = item[:-1] (non-empty), v = item[-1]; returns the working tree after the assignment and
   whether an assignment went into a branch with own = false *)
Fixpoint setitem (cow : bool) (base : N) (ign : list val) (path : list string) (v : val) (t : tree) {struct path}
  : tree * bool :=
  match t with
  | Leaf _ => (t, false)
  | Node own cls kids =>
      match path with
      | [] => (t, false)
      | [k] =>
          match lookup k kids with
          | Some _ => if in_model v ign then (t, false) else (Node own cls (kset k (Leaf v) kids), negb own)
          | None => (Node own cls (kset k (Leaf v) kids), negb own)
          end
      | k :: rest =>
          match lookup k kids with
          | Some (Node o c ks) =>
              if cow then                                  (* res[key] = copy(res[key]) *)
                let r := setitem cow base ign rest v (Node true c ks) in
                (Node own cls (kset k (fst r) kids), negb own || snd r)
              else
                let r := setitem cow base ign rest v (Node o c ks) in
                (Node own cls (kset k (fst r) kids), snd r)
          | _ =>                                           (* missing or a leaf: res[key] = base() *)
              let r := setitem cow base ign rest v (Node true base []) in
              (Node own cls (kset k (fst r) kids), negb own || snd r)
          end
      end
  end.

Definition path_eqb (a b : list string) : bool := forall2b String.eqb a b.
Fixpoint nodup_paths (l : list (list string)) : bool :=
  match l with
  | [] => true
  | p :: t => negb (existsb (path_eqb p) t) && nodup_paths t
  end.

Definition copy_top (t : tree) : tree := match t with Node _ c ks => Node true c ks | l => l end.
Definition cls_of (t : tree) : N := match t with Node _ c _ => c | Leaf _ => 0%N end.

(* None = ValueError (item too short) *)
Fixpoint set_all (cow : bool) (base : N) (ign : list val) (items : list item) (acc : tree * bool) : option (tree * bool) :=
  match items with
  | [] => Some acc
  | it :: rest =>
      match fst it with
      | [] => None
      | _ => let r := setitem cow base ign (fst it) (snd it) (fst acc) in
             set_all cow base ign rest (fst r, snd acc || snd r)
      end
  end.

(* items_to_tree(items, tree, ignore = ign); None = ValueError (duplicates / item too short) *)
Definition items_to_tree (cow : bool) (items : list item) (t : option tree) (ign : list val) : option (tree * bool) :=
  if nodup_paths (map fst items) then
    let t0 := match t with None => Node true 2 [] | Some t => copy_top t end in
    set_all cow (cls_of t0) ign items (t0, false)
  else None.

(* tree_update(tree, update, ignore = ign) and Dict.__add__ *)
Definition tree_update (cow : bool) (t u : tree) (ign : list val) : option (tree * bool) :=
  items_to_tree cow (tree_items u) (Some t) ign.

(* ------------------------------------------------------------------ what Python's == sees of a tree *)
Inductive ptree := PLeaf (v : val) | PNode (kids : list (string * ptree)).
Fixpoint shape_of (t : tree) : ptree :=
  match t with
  | Leaf v => PLeaf v
  | Node _ _ kids => PNode (map (fun kv => (fst kv, shape_of (snd kv))) kids)
  end.
Fixpoint disown (t : tree) : tree :=
  match t with
  | Leaf v => Leaf v
  | Node _ c kids => Node false c (map (fun kv => (fst kv, disown (snd kv))) kids)
  end.

(* the recursive merge of the property: u's leaves override (unless the key exists and the new value is
   in the ignore list), branches present on both sides are merged, a branch of u replaces a leaf of t or
   is added, everything else of t is kept (in place; new keys are appended) *)
Fixpoint pmerge (ign : list val) (t u : ptree) {struct u} : ptree :=
  match u with
  | PLeaf v => PLeaf v
  | PNode ku =>
      let kt := match t with PNode kt => kt | PLeaf _ => [] end in
      PNode (fold_left
               (fun acc kv =>
                  match snd kv with
                  | PLeaf v =>
                      match lookup (fst kv) acc with
                      | Some _ => if in_model v ign then acc else kset (fst kv) (PLeaf v) acc
                      | None => kset (fst kv) (PLeaf v) acc
                      end
                  | PNode _ =>
                      kset (fst kv) (pmerge ign (match lookup (fst kv) acc with Some s => s | None => PNode [] end) (snd kv)) acc
                  end) ku kt)
  end.

(* pure path assignment and flattening on shapes (used by the refinement proof) *)
Fixpoint pset (ign : list val) (path : list string) (v : val) (t : ptree) {struct path} : ptree :=
  match t with
  | PLeaf _ => t
  | PNode kids =>
      match path with
      | [] => t
      | [k] => match lookup k kids with
               | Some _ => if in_model v ign then t else PNode (kset k (PLeaf v) kids)
               | None => PNode (kset k (PLeaf v) kids)
               end
      | k :: rest =>
          PNode (kset k (pset ign rest v (match lookup k kids with Some (PNode ks) => PNode ks | _ => PNode [] end)) kids)
      end
  end.
Fixpoint pitems (t : ptree) : list item :=
  match t with
  | PLeaf v => [([], v)]
  | PNode kids => flat_map (fun kv => map (fun it => (fst kv :: fst it, snd it)) (pitems (snd kv))) kids
  end.
Definition pset_all (ign : list val) (items : list item) (t : ptree) : ptree :=
  fold_left (fun acc it => pset ign (fst it) (snd it) acc) items t.

(* well-formedness: dict keys are distinct at every branch; full: every branch below the root has a child *)
Fixpoint pwf (t : ptree) : bool :=
  match t with
  | PLeaf _ => true
  | PNode kids => nodup_keys kids && forallb (fun kv => pwf (snd kv)) kids
  end.
Fixpoint pfull (t : ptree) : bool :=
  match t with
  | PLeaf _ => true
  | PNode kids => forallb (fun kv => match snd kv with PNode [] => false | _ => pfull (snd kv) end) kids
  end.
Definition is_node (t : tree) : bool := match t with Node _ _ _ => true | Leaf _ => false end.

(* ------------------------------------------------------------------ tree_to_table / table_to_tree *)
Inductive seg := SLit (k : string) | SWild (x : string).
Definition row := list (string * val).

Definition leaf_is_str (v : val) (k : string) : bool := match v with VStr s => String.eqb s k | _ => false end.

(* tree_to_table(tree, pattern); d.update({x: k}) on the rows of the subtree *)
Fixpoint tree_to_table (t : tree) (pat : list seg) {struct pat} : list row :=
  match pat with
  | [] => [[]]
  | s :: rest =>
      match t with
      | Node _ _ kids =>
          match s with
          | SWild x => flat_map (fun kv => map (kset x (VStr (fst kv))) (tree_to_table (snd kv) rest)) kids
          | SLit k => match lookup k kids with Some c => tree_to_table c rest | None => [] end
          end
      | Leaf v =>
          match rest with
          | _ :: _ => []
          | [] => match s with SWild x => [[(x, v)]] | SLit k => if leaf_is_str v k then [[]] else [] end
          end
      end
  end.

Definition seg_value (r : row) (s : seg) : option val :=
  match s with SLit k => Some (VStr k) | SWild x => lookup x r end.
Definition key_of (v : val) : option string := match v with VStr s => Some s | _ => None end.
(* the item [d[p] or p for p in path] split into the key path and the leaf; None = KeyError / non-str key *)
Fixpoint row_item (r : row) (pat : list seg) : option item :=
  match pat with
  | [] => None
  | [s] => match seg_value r s with Some v => Some ([], v) | None => None end
  | s :: rest =>
      match seg_value r s, row_item r rest with
      | Some v, Some it => match key_of v with Some k => Some (k :: fst it, snd it) | None => None end
      | _, _ => None
      end
  end.
Fixpoint rows_items (rows : list row) (pat : list seg) : option (list item) :=
  match rows with
  | [] => Some []
  | r :: t => match row_item r pat, rows_items t pat with Some it, Some l => Some (it :: l) | _, _ => None end
  end.
(* table_to_tree(tree, pattern, rows) with base = dictattr *)
Definition table_to_tree (cow : bool) (t : option tree) (pat : list seg) (rows : list row) : option (tree * bool) :=
  match rows_items rows pat with
  | Some items => set_all cow 2 [] items (match t with None => Node true 2 [] | Some t => copy_top t end, false)
  | None => None
  end.

(* ------------------------------------------------------------------ the general merge spec
   A branch of the update that holds no leaf (an empty dict, or dicts nesting only empty dicts) contributes nothing:
   it neither creates a path nor replaces a leaf of t.  prune removes exactly those branches (below the root). *)
Fixpoint prune (u : ptree) : ptree :=
  match u with
  | PLeaf v => PLeaf v
  | PNode kids =>
      PNode (flat_map (fun kv => match snd kv with
                                 | PLeaf v => [(fst kv, PLeaf v)]
                                 | PNode _ => match prune (snd kv) with PNode [] => [] | s => [(fst kv, s)] end
                                 end) kids)
  end.
Definition merge_spec (ign : list val) (t u : ptree) : ptree := pmerge ign t (prune u).
