(* C20 — model of perdictable (src/pyg_base/_perdictable.py: _item, join, _value_output).
   Definitions only.  Keys are tuples of scalar cells compared with tcmp (model/M_join.v); the inner
   join x*y and the anti-join x/y that `join` is built from are used through their proved meaning
   (C02: relational join / anti-join on cmp-equal keys), i.e. as membership tests on unique-key tables.

     inputs        : each argument is a scalar or a table key -> value, optionally named in `defaults`
     data / expiry : the previously computed values and their expiry (absent, scalar or table);
                     _value_output always gives them the default None, so they are outer-joined
     result keys   : keys of the first non-default table that occur in every other non-default table;
                     if there is no non-default table, the union of the keys of all tables
     sort          : res.sort(on): by key, with cmp
     evaluation    : row by row; f is called iff no data was supplied or the row's expiry is None / not
                     in the past; otherwise the cached value is kept.  The trace records the calls. *)
From Coq Require Import ZArith List Bool.
From PB Require Import model.M_join.
Import ListNotations.
Open Scope Z_scope.

Definition key := list cell.
Inductive pval := VNone | VInt (z : Z) | VList (tuple : bool) (l : list Z).     (* a list / tuple valued scalar: carried opaquely, never spread over rows *)
Inductive expv := EPast | EFuture | ENone.            (* expiry cell: a past date, a future date, None *)
Inductive input := Scalar (v : pval) | Table (rows : list (key * pval)).
Record arg := mkArg { a_in : input; a_def : option pval }.      (* a_def = Some d: named in defaults with value d *)
Inductive expin := XAbsent | XScalar (e : expv) | XTable (rows : list (key * expv)).
Definition datain := option (list (key * pval)).

Section Lookup.
  Context {A : Type}.
  Definition has (k : key) (rows : list (key * A)) : bool := existsb (fun r => tkeq k (fst r)) rows.
  Fixpoint lookup (k : key) (rows : list (key * A)) : option A :=
    match rows with [] => None | (k', v) :: r => if tkeq k k' then Some v else lookup k r end.
End Lookup.

Definition is_table (a : arg) : bool := match a_in a with Table _ => true | Scalar _ => false end.
Definition tkeys (a : arg) : list key := match a_in a with Table rows => map fst rows | Scalar _ => [] end.
Definition ahas (k : key) (a : arg) : bool := match a_in a with Table rows => has k rows | Scalar _ => false end.
Definition nondef (args : list arg) : list arg := filter (fun a => is_table a && match a_def a with None => true | Some _ => false end) args.
Definition dkeys (d : datain) : list key := match d with Some rows => map fst rows | None => [] end.
Definition xkeys (x : expin) : list key := match x with XTable rows => map fst rows | _ => [] end.
(* every key of every table involved *)
Definition all_keys (args : list arg) (d : datain) (x : expin) : list key :=
  flat_map tkeys args ++ dkeys d ++ xkeys x.

Fixpoint dedupe (l : list key) : list key :=
  match l with [] => [] | k :: r => k :: filter (fun k' => negb (tkeq k k')) (dedupe r) end.

Definition cand_keys (args : list arg) (d : datain) (x : expin) : list key :=
  match nondef args with
  | t :: rest => filter (fun k => forallb (ahas k) rest) (tkeys t)
  | [] => dedupe (all_keys args d x)
  end.
Definition ksort (l : list key) : list key :=
  map fst (isort key tcmp (map (fun k => (k, 0%nat)) l)).
Definition result_keys (args : list arg) (d : datain) (x : expin) : list key := ksort (cand_keys args d x).

(* the value input a contributes to the row of key k *)
Definition arg_value (k : key) (a : arg) : pval :=
  match a_in a with
  | Scalar v => v
  | Table rows => match lookup k rows with Some v => v | None => match a_def a with Some dv => dv | None => VNone end end
  end.
Definition row_args (args : list arg) (k : key) : list pval := map (arg_value k) args.

Definition exp_of (x : expin) (k : key) : expv :=
  match x with XAbsent => ENone | XScalar e => e | XTable rows => match lookup k rows with Some e => e | None => ENone end end.
Definition cache_of (d : datain) (k : key) : pval :=
  match d with Some rows => match lookup k rows with Some v => v | None => VNone end | None => VNone end.
Definition runs (d : datain) (x : expin) (k : key) : bool :=
  match d with None => true | Some _ => match exp_of x k with EPast => false | _ => true end end.

Inductive result := RScalar (v : pval) | RNone | RData (rows : list (key * pval)) | RTable (rows : list (key * pval)).

Definition any_table (args : list arg) (d : datain) (x : expin) : bool :=
  existsb is_table args || match d with Some _ => true | None => false end || match x with XTable _ => true | _ => false end.

Section Eval.
  Variable f : list pval -> pval.
  Definition row_value (args : list arg) (d : datain) (x : expin) (k : key) : pval :=
    if runs d x k then f (row_args args k) else cache_of d k.
  Definition trace_of (args : list arg) (d : datain) (x : expin) (keys : list key) : list (key * list pval) :=
    map (fun k => (k, row_args args k)) (filter (runs d x) keys).
  (* (what the call returns, the calls of f it made) *)
  Definition perdict (args : list arg) (d : datain) (x : expin) : result * list (key * list pval) :=
    if negb (any_table args d x) then (RScalar (f (row_args args [])), [([], row_args args [])])
    else
      let keys := result_keys args d x in
      match keys with
      | [] => (match d with Some rows => RData rows | None => RNone end, [])
      | _ => (RTable (map (fun k => (k, row_value args d x k)) keys), trace_of args d x keys)
      end.
End Eval.

(* the function the correspondence lifts: digits of the arguments, None = 9 *)
Definition digit (v : pval) : Z :=
  match v with
  | VNone => 9 | VInt z => z
  | VList b l => 20 + 3 * Z.of_nat (List.length l) + fold_right Z.add 0 l + (if b then 1 else 0)
  end.
Fixpoint fcode (l : list pval) : Z := match l with [] => 0 | v :: r => digit v + 10 * fcode r end.
(* a code that is 3 mod 7 stands for a None result *)
Definition fval (z : Z) : pval := if z mod 7 =? 3 then VNone else VInt z.
Definition fdigits (l : list pval) : pval := fval (fcode l).

(* ------------------------------------------------------------------ the dict-output path (_dict_output)
   A function declared with f.output = [o1; ...; on] returns a record of named outputs; previously
   computed values are supplied per output (caches : one datain per output, None = not supplied).
   join sees every supplied cache as one more input with default None, so the key set is that of
   args ++ caches.  A row is recomputed iff some output was not supplied at all or its expiry is None /
   not in the past; otherwise every output keeps the value supplied for that key (None where absent).
   The call returns, per output, the key columns plus that output: modelled as rows key -> record. *)
Definition cache_arg (d : datain) : arg :=
  match d with Some rows => mkArg (Table rows) (Some VNone) | None => mkArg (Scalar VNone) (Some VNone) end.
Definition supplied (d : datain) : bool := match d with Some _ => true | None => false end.
Definition args_with (args : list arg) (caches : list datain) : list arg := args ++ map cache_arg caches.
Definition keysN (args : list arg) (caches : list datain) (x : expin) : list key :=
  result_keys (args_with args caches) None x.
Definition any_tableN (args : list arg) (caches : list datain) (x : expin) : bool :=
  any_table (args_with args caches) None x.
Definition runsN (caches : list datain) (x : expin) (k : key) : bool :=
  if forallb supplied caches then match exp_of x k with EPast => false | _ => true end else true.
Definition cachesN (caches : list datain) (k : key) : list pval := map (fun d => cache_of d k) caches.

Inductive resultN :=
| NScalar (outs : list pval)                       (* all inputs scalars: f's record itself *)
| NEmpty (caches : list datain)                    (* no common key: the supplied caches are handed back *)
| NTable (rows : list (key * list pval)).          (* one row per key, the record of outputs *)

Section EvalN.
  Variable f : list pval -> list pval.
  Definition perdictN (args : list arg) (caches : list datain) (x : expin) : resultN * list (key * list pval) :=
    if negb (any_tableN args caches x) then (NScalar (f (row_args args [])), [([], row_args args [])])
    else
      let keys := keysN args caches x in
      match keys with
      | [] => (NEmpty caches, [])
      | _ => (NTable (map (fun k => (k, if runsN caches x k then f (row_args args k) else cachesN caches k)) keys),
              map (fun k => (k, row_args args k)) (filter (runsN caches x) keys))
      end.
End EvalN.

(* the record the correspondence's function returns: output i (from 1) = digits of the arguments + 10000 i *)
Definition fouts (n : nat) (l : list pval) : list pval := map (fun i => fval (fcode l + 10000 * Z.of_nat i)) (seq 1 n).

(* ------------------------------------------------------------------ partially keyed inputs
   (join docstring: "joins with partial columns in some tables").  An input may carry only some of the `on`
   columns: mask says which (in `on` order); absent positions of its keys hold CNone.  The model follows join
   step by step: the inputs without default are multiplied (natural join on the shared key columns) in input
   order; the defaulted ones are folded with _join_dictable_with_defaults (matched rows, plus the rows of
   either side that found no partner carrying the other side's defaults); concatenation fills a key column
   a row's table did not carry with None.  Generated only with masks that pairwise share a key column. *)
Definition prow := (list cell * list (option pval))%type.      (* key cells per `on` column; per input: its value once joined *)
Definition ptab := (list bool * list prow)%type.                (* which `on` columns the table carries; rows *)

Fixpoint kmatch (m1 m2 : list bool) (a b : list cell) : bool :=
  match m1, m2, a, b with
  | b1 :: m1', b2 :: m2', x :: a', y :: b' => (if b1 && b2 then ccmp x y =? 0 else true) && kmatch m1' m2' a' b'
  | _, _, _, _ => true
  end.
Fixpoint kmerge (m1 : list bool) (a b : list cell) : list cell :=
  match m1, a, b with b1 :: m', x :: a', y :: b' => (if b1 then x else y) :: kmerge m' a' b' | _, _, _ => [] end.
Fixpoint vmerge (a b : list (option pval)) : list (option pval) :=
  match a, b with x :: a', y :: b' => (match x with Some _ => x | None => y end) :: vmerge a' b' | _, _ => [] end.
Fixpoint mor (a b : list bool) : list bool := match a, b with x :: a', y :: b' => (x || y) :: mor a' b' | _, _ => [] end.

Definition pmul (d1 d2 : ptab) : ptab :=
  (mor (fst d1) (fst d2),
   flat_map (fun r1 => flat_map (fun r2 => if kmatch (fst d1) (fst d2) (fst r1) (fst r2)
                                           then [(kmerge (fst d1) (fst r1) (fst r2), vmerge (snd r1) (snd r2))] else []) (snd d2)) (snd d1)).
Definition panti (d1 d2 : ptab) : list prow :=
  filter (fun r1 => negb (existsb (fun r2 => kmatch (fst d1) (fst d2) (fst r1) (fst r2)) (snd d2))) (snd d1).
Fixpoint setnth {A} (i : nat) (v : A) (l : list A) : list A :=
  match l, i with [], _ => [] | _ :: l', O => v :: l' | x :: l', S j => x :: setnth j v l' end.
Definition setdefs (defs : list (nat * pval)) (r : prow) : prow :=
  (fst r, fold_left (fun vals d => setnth (fst d) (Some (snd d)) vals) defs (snd r)).
Definition ptd := (option ptab * list (nat * pval))%type.       (* (table, defaults collected so far) *)
Definition pouter (t1 t2 : ptd) : ptd :=
  match fst t1, fst t2 with
  | None, _ => (fst t2, snd t1 ++ snd t2)
  | _, None => (fst t1, snd t1 ++ snd t2)
  | Some d1, Some d2 =>
      let d := pmul d1 d2 in
      let add1 := match snd t1 with [] => [] | _ => map (setdefs (snd t1)) (panti d2 d1) end in
      let add2 := match snd t2 with [] => [] | _ => map (setdefs (snd t2)) (panti d1 d2) end in
      (Some (fst d, snd d ++ add1 ++ add2), snd t1 ++ snd t2)
  end.

(* input i of n as a table: its rows hold the value at position i *)
Definition parg := (list bool * arg)%type.
Definition onehot (n i : nat) (v : pval) : list (option pval) := map (fun j => if Nat.eqb j i then Some v else None) (seq 0 n).
Definition as_ptab (n i : nat) (p : parg) : option ptab :=
  match a_in (snd p) with Table rows => Some (fst p, map (fun r => (fst r, onehot n i (snd r))) rows) | Scalar _ => None end.
Definition pjoinP (ps : list parg) : list prow :=
  let n := List.length ps in
  let ips := combine (seq 0 n) ps in
  let nod := flat_map (fun ip => match as_ptab n (fst ip) (snd ip), a_def (snd (snd ip)) with Some t, None => [t] | _, _ => [] end) ips in
  let wd := flat_map (fun ip => match as_ptab n (fst ip) (snd ip), a_def (snd (snd ip)) with Some t, Some dv => [(Some t, [(fst ip, dv)])] | _, _ => [] end) ips in
  let tbl1 : option ptab := match nod with [] => None | t :: r => Some (fold_left pmul r t) end in
  let td2 : ptd := fold_left pouter wd (None, []) in
  let res := pouter (tbl1, []) td2 in
  let scal (vals : list (option pval)) := map (fun ipv => match a_in (snd (snd (fst ipv))) with Scalar v => Some v | Table _ => snd ipv end) (combine ips vals) in
  match fst res with
  | None => [([], scal (map (fun _ => None) ps))]
  | Some t =>
      let rows := snd t in
      let order := map snd (isort (list cell) tcmp (combine (map fst rows) (seq 0 (List.length rows)))) in   (* res.sort(on): stable, by the full key *)
      map (fun i => let r := nth i rows ([], []) in (fst r, scal (snd r))) order
  end.

(* perdictable over such a join, no cached data: every row is computed, once *)
Definition perdictP (f : list pval -> pval) (ps : list parg) : result * list (key * list pval) :=
  let rows := map (fun r => (fst r, map (fun o => match o with Some v => v | None => VNone end) (snd r))) (pjoinP ps) in
  match rows with
  | [] => (RNone, [])
  | _ => (RTable (map (fun r => (fst r, f (snd r))) rows), rows)
  end.
