(* C13 — executable model of pyg_base._pandas._closed / _df_slice / df_slice / df_unslice.

   Own small vocabulary (no dependency on M_ts / M_align):
     timestamps are integers (the harness uses hours; `day` is the length of a day in the same unit),
     a time series / frame is a list of (timestamp, payload) with strictly increasing timestamps,
     ts := list (Z * option Z) (None = NaN), frame rows := list (Z * list (option Z)).
   Bounds: BNone (missing), BAt t (a date/datetime), BTod h (a datetime.time, compared with t mod day).

   pandas is the modelled oracle: df[lb:ub] on a sorted DatetimeIndex (closed on both sides) is
   `label_slice`, boolean-mask selection is `filter`, pd.concat([pre, post]).sort_index() is the stable
   sort `isort` (= `merge` for two pieces in time order), pd.concat(axis = 1) of Series is the sorted outer join `join`.
   The wrap-around window is modelled in its REPAIRED form (fixes/C13.patch: `openclose` is passed to
   the two recursive calls); `wrap_slice` takes the brackets used by the recursive calls as a separate
   argument so that the pinned behaviour (always "(]") can be stated and refuted. df_unslice is modelled
   with the n = 1 repair (a stitched Series is its own single column). *)
From Coq Require Import ZArith List Bool Arith.
Import ListNotations.
Open Scope Z_scope.

Inductive bound := BNone | BAt (t : Z) | BTod (h : Z).

Section Slice.
Variable day : Z.
Definition tod (t : Z) : Z := t mod day.

(* l / u : is the bracket closed *)
Definition ge_lb (l : bool) (lb : bound) (t : Z) : bool :=
  match lb with
  | BNone => true
  | BAt b => if l then b <=? t else b <? t
  | BTod h => if l then h <=? tod t else h <? tod t
  end.
Definition le_ub (u : bool) (ub : bound) (t : Z) : bool :=
  match ub with
  | BNone => true
  | BAt b => if u then t <=? b else t <? b
  | BTod h => if u then tod t <=? h else tod t <? h
  end.
Definition in_window (oc : bool * bool) (lb ub : bound) (t : Z) : bool :=
  ge_lb (fst oc) lb t && le_ub (snd oc) ub t.

Fixpoint dropwhile {A} (p : A -> bool) (l : list A) : list A :=
  match l with [] => [] | a :: t => if p a then dropwhile p t else l end.
Fixpoint takewhile {A} (p : A -> bool) (l : list A) : list A :=
  match l with [] => [] | a :: t => if p a then a :: takewhile p t else [] end.

Definition is_none (b : bound) : bool := match b with BNone => true | _ => false end.
Definition is_tod (b : bound) : bool := match b with BTod _ => true | _ => false end.

(* the mask path: df = df[index >= lb]; df = df[index <= ub] *)
Definition mask_slice {A} (oc : bool * bool) (lb ub : bound) (rows : list (Z * A)) : list (Z * A) :=
  filter (fun r => le_ub (snd oc) ub (fst r)) (filter (fun r => ge_lb (fst oc) lb (fst r)) rows).
(* the fast path df[lb:ub] on a sorted index: a contiguous block, closed on both sides *)
Definition label_slice {A} (lb ub : bound) (rows : list (Z * A)) : list (Z * A) :=
  takewhile (fun r => le_ub true ub (fst r)) (dropwhile (fun r => negb (ge_lb true lb (fst r))) rows).

(* index.is_monotonic_increasing (non-strict: repeated timestamps allowed) *)
Fixpoint is_mono {A} (rows : list (Z * A)) : bool :=
  match rows with
  | a :: ((b :: _) as t) => (fst a <=? fst b) && is_mono t
  | _ => true
  end.

(* _df_slice for a datetime-indexed object.  The index may be stored in any order and may repeat timestamps:
   the label slice is only used when the index is in time order (REPAIRED form, fixes/C13.patch; the pinned tree
   tries df[lb:ub] on any index, which pandas answers by POSITION when both labels exist in an unsorted index);
   otherwise the boolean masks select the rows, in their stored order *)
Definition slice1 {A} (oc : bool * bool) (lb ub : bound) (rows : list (Z * A)) : list (Z * A) :=
  if is_none lb && is_none ub then rows
  else if (fst oc || is_none lb) && (snd oc || is_none ub) && negb (is_tod lb) && negb (is_tod ub) && is_mono rows
       then label_slice lb ub rows
       else mask_slice oc lb ub rows.

(* sort_index: stable insertion sort by timestamp (rows sharing a timestamp keep their relative order; pandas leaves
   that order unspecified, the harness compares such rows as a multiset) *)
Fixpoint insert {A} (x : Z * A) (l : list (Z * A)) : list (Z * A) :=
  match l with
  | [] => [x]
  | y :: t => if fst x <=? fst y then x :: l else y :: insert x t
  end.
Fixpoint isort {A} (l : list (Z * A)) : list (Z * A) :=
  match l with [] => [] | x :: t => insert x (isort t) end.

(* the same for two pieces that are already in time order (used by the proofs: isort (a ++ b) = merge a b) *)
Fixpoint merge {A} (a : list (Z * A)) : list (Z * A) -> list (Z * A) :=
  fix m2 (b : list (Z * A)) : list (Z * A) :=
    match a, b with
    | [], _ => b
    | _, [] => a
    | x :: a', y :: b' => if fst x <=? fst y then x :: merge a' b else y :: m2 b'
    end.

(* df_slice on one series: a window of times of day whose start is later than its end wraps past midnight.
   oc_rec = brackets used by the two recursive calls (repaired code: oc_rec = oc; pinned code: always "(]") *)
Definition wrap_slice {A} (oc_rec oc : bool * bool) (lb ub : bound) (rows : list (Z * A)) : list (Z * A) :=
  match lb, ub with
  | BTod a, BTod b =>
      if b <? a then isort (slice1 oc_rec BNone ub rows ++ slice1 oc_rec lb BNone rows)
      else slice1 oc lb ub rows
  | _, _ => slice1 oc lb ub rows
  end.
Definition df_slice_one {A} (oc : bool * bool) := @wrap_slice A oc oc.
Definition df_slice_one_pinned {A} (oc : bool * bool) := @wrap_slice A (false, true) oc.

(* ---- stitching a list of series *)
Definition ts := list (Z * option Z).
Definition frow := list (option Z).
Definition frame := list (Z * frow).

Fixpoint lookup (t : Z) (s : ts) : option Z :=
  match s with [] => None | (t', v) :: r => if t =? t' then v else lookup t r end.
(* sorted union of two sorted key lists *)
Fixpoint union_keys (a : list Z) : list Z -> list Z :=
  fix u2 (b : list Z) : list Z :=
    match a, b with
    | [], _ => b
    | _, [] => a
    | x :: a', y :: b' =>
        if x <? y then x :: union_keys a' b else if y <? x then y :: u2 b' else x :: union_keys a' b'
    end.
(* pd.concat(series, axis = 1) with columns 0..: sorted outer join *)
Definition join (ss : list ts) : frame :=
  map (fun t => (t, map (lookup t) ss)) (fold_right union_keys [] (map (map fst) ss)).
(* df[i : i + n] for every i *)
Fixpoint windows (n : nat) (ss : list ts) : list (list ts) :=
  match ss with [] => [] | _ :: r => firstn n ss :: windows n r end.
Definition pad (w : nat) (r : frow) : frow := app r (repeat None (w - List.length r)).

Fixpoint zip3 {A} (f : frame -> bound -> bound -> A) (fs : list frame) (lbs ubs : list bound) : list A :=
  match fs, lbs, ubs with
  | fr :: fs', lb :: lbs', ub :: ubs' => f fr lb ub :: zip3 f fs' lbs' ubs'
  | _, _, _ => []
  end.
(* res = [_df_slice(d, l, u, openclose) ...]; pd.concat(res) pads the narrower frames with NaN *)
Definition stitch_zip (oc : bool * bool) (w : nat) (fs : list frame) (lbs ubs : list bound) : frame :=
  concat (zip3 (fun fr lb ub => map (fun r => (fst r, pad w (snd r))) (slice1 oc lb ub fr)) fs lbs ubs).

Fixpoint nondec (l : list Z) : bool :=
  match l with
  | a :: ((b :: _) as t) => (a <=? b) && nondec t
  | _ => true
  end.
(* lb = [None] + ub[:-1] *)
Fixpoint shift (prev : bound) (ubs : list Z) : list bound :=
  match ubs with [] => [] | u :: us => prev :: shift (BAt u) us end.

Inductive bounds_arg := UbList (ub : list Z) | LbList (lb : list Z) | BothLists (lb ub : list Z).

(* df_slice(list of series, lb / ub lists, openclose, n); None = ValueError *)
Definition stitch (oc : bool * bool) (n : nat) (ss : list ts) (b : bounds_arg) : option frame :=
  let go (ss : list ts) (lbs ubs : list bound) :=
    let fs := map join (if (1 <? n)%nat then windows n ss else map (fun s => [s]) ss) in
    stitch_zip oc (Nat.min (Nat.max n 1) (List.length ss)) fs lbs ubs in
  match b with
  | UbList ub =>
      let '(ub, ss) := if nondec ub then (ub, ss) else (rev ub, rev ss) in
      Some (go ss (shift BNone ub) (map BAt ub))
  | LbList lb =>
      let '(lb, ss) := if nondec lb then (lb, ss) else (rev lb, rev ss) in
      Some (go ss (map BAt lb) (app (map BAt (tl lb)) [BNone]))
  | BothLists lb ub =>
      if Bool.eqb (nondec lb) (nondec ub) then
        let '(lb, ub, ss) := if nondec lb then (lb, ub, ss) else (rev lb, rev ub, rev ss) in
        Some (go ss (map BAt lb) (map BAt ub))
      else None
  end.

(* ---- df_unslice(df, ub): one series per bound *)
Definition column (j : nat) (f : frame) : ts := map (fun r => (fst r, nth j (snd r) None)) f.
Definition drop_nan (s : ts) : ts := filter (fun p => match snd p with Some _ => true | None => false end) s.
Definition unslice (n : nat) (f : frame) (ubs : list Z) : list (Z * ts) :=
  let pieces := zip3 (fun fr lb ub => df_slice_one (false, true) lb ub fr) (map (fun _ => f) ubs) (shift BNone ubs) (map BAt ubs) in
  map (fun m => (nth m ubs 0,
                 drop_nan (concat (map (fun i => column (m - i) (nth i pieces [])) (seq (S m - n) (S m - (S m - n)))))))
      (seq 0 (List.length ubs)).
End Slice.

(* ---- _closed and the bracket string *)
From Coq Require Import String Ascii.
Definition closed_char (c : ascii) : option bool :=
  if existsb (Ascii.eqb c) ["("; ")"; "o"; "O"]%char then Some false
  else if existsb (Ascii.eqb c) ["["; "]"; "c"; "C"]%char then Some true
  else None.
(* l, u = openclose if openclose else '[)'; None = ValueError (wrong length or unknown character) *)
Definition parse_oc (s : string) : option (bool * bool) :=
  match s with
  | EmptyString => Some (true, false)
  | String a (String b EmptyString) =>
      match closed_char a, closed_char b with
      | Some l, Some u => Some (l, u)
      | _, _ => None
      end
  | _ => None
  end.
