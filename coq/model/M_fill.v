(* C12 — executable model of pyg_base._pandas._df_fillna / df_fillna / _nona / nona.

   Data layout (own small vocabulary, no dependency on M_ts / M_align):
     val    := Fin z | PInf | NInf   a float that is not NaN: finite (an integer, carried, never computed) or +-inf
     cell   := option val         None = NaN; +-inf are ordinary non-NaN cells
     vec    := list cell          one column / a Series / a 1-d ndarray
     row    := list cell          one row of a frame
     lframe := list (Z * row)     row-major frame, every row tagged with its index label
   A Series is a 1-column lframe.  An ndarray is an lframe labelled 0..n-1 whose labels are
   dropped from the result (the code builds pd.Series(arr) / pd.DataFrame(arr) and returns .values).

   The model follows the code: pandas' ffill/bfill/fillna(value) with `limit` are modelled
   (pandas is the trusted, modelled-not-verified oracle; every run compares it with this text),
   the dispatcher, the method list loop, 'nona', 'fnna', 'ffill_na'/'ffill_0' and nona(value, edge)
   are transcribed.  The method-list loop is modelled in its REPAIRED form (fixes/C12.patch):
   every method acts on the running result `res` (the pinned tree reads `df.last_valid_index()`
   of the original argument and re-applies the whole list per column in the DataFrame arm, and
   slices 'fnna' positionally on integer labels). *)
From Coq Require Import ZArith List Bool Arith.
Import ListNotations.

Inductive val := Fin (z : Z) | PInf | NInf.
Definition val_eqb (a b : val) : bool :=
  match a, b with
  | Fin x, Fin y => Z.eqb x y
  | PInf, PInf | NInf, NInf => true
  | _, _ => false
  end.
Definition cell := option val.
Definition vec := list cell.
Definition row := list cell.
Definition lframe := list (Z * row).

Definition is_nan (c : cell) : bool := match c with None => true | Some _ => false end.
Definition all_nan (r : row) : bool := forallb is_nan r.

(* limit: None = unbounded, Some L = at most L (pandas requires L >= 1) *)
Definition within (lim : option nat) (k : nat) : bool :=
  match lim with None => true | Some L => k <=? L end.

(* ---- pandas Series.ffill(limit): run counter d = distance from the last observation *)
Fixpoint ffill_from (lim : option nat) (last : option val) (d : nat) (v : vec) : vec :=
  match v with
  | [] => []
  | Some x :: t => Some x :: ffill_from lim (Some x) 0 t
  | None :: t =>
      (match last with
       | Some x => if within lim (S d) then Some x else None
       | None => None
       end) :: ffill_from lim last (S d) t
  end.
Definition ffill (lim : option nat) (v : vec) : vec := ffill_from lim None 0 v.
(* pandas bfill = ffill on the reversed column *)
Definition bfill (lim : option nat) (v : vec) : vec := rev (ffill lim (rev v)).

(* ---- pandas fillna(value = c, limit): the first `limit` NaNs of the column *)
Fixpoint cfill_from (lim : option nat) (used : nat) (c : val) (v : vec) : vec :=
  match v with
  | [] => []
  | Some x :: t => Some x :: cfill_from lim used c t
  | None :: t => (if within lim (S used) then Some c else None) :: cfill_from lim (S used) c t
  end.
Definition cfill (lim : option nat) (c : val) (v : vec) : vec := cfill_from lim 0 c v.

(* ---- 'ffill_na' / 'ffill_0': last_valid_index, ffill, then overwrite everything after it *)
Fixpoint last_valid_from (i : nat) (acc : option nat) (v : vec) : option nat :=
  match v with
  | [] => acc
  | Some _ :: t => last_valid_from (S i) (Some i) t
  | None :: t => last_valid_from (S i) acc t
  end.
Definition last_valid (v : vec) : option nat := last_valid_from 0 None v.
Definition overwrite_after (p : nat) (inv : cell) (v : vec) : vec :=
  firstn (S p) v ++ repeat inv (length v - S p).
Definition ffill_tail (lim : option nat) (inv : cell) (v : vec) : vec :=
  match last_valid v with
  | None => v
  | Some p => overwrite_after p inv (ffill lim v)
  end.

(* ---- frames: column j, and a column-wise operation on a row-major frame *)
Definition col (j : nat) (rows : list row) : vec := map (fun r => nth j r None) rows.
Definition lift_cols (k : nat) (f : vec -> vec) (rows : list row) : list row :=
  map (fun i => map (fun j => nth i (f (col j rows)) None) (seq 0 k)) (seq 0 (length rows)).
Definition relabel (lf : lframe) (rows : list row) : lframe := combine (map fst lf) rows.
Definition lift (k : nat) (f : vec -> vec) (lf : lframe) : lframe :=
  relabel lf (lift_cols k f (map snd lf)).

Fixpoint dropwhile {A} (p : A -> bool) (l : list A) : list A :=
  match l with
  | [] => []
  | a :: t => if p a then dropwhile p t else l
  end.

(* ---- the dispatcher of _df_fillna *)
Inductive meth :=
| MFfill | MBfill | MConst (c : val) | MNona | MFnna | MFfillNa | MFfill0.

Definition vec_op (lim : option nat) (m : meth) : option (vec -> vec) :=
  match m with
  | MFfill => Some (ffill lim)
  | MBfill => Some (bfill lim)
  | MConst c => Some (cfill lim c)
  | MFfillNa => Some (ffill_tail lim None)
  | MFfill0 => Some (ffill_tail lim (Some (Fin 0)))
  | MNona | MFnna => None
  end.

Definition fill1 (k : nat) (lim : option nat) (lf : lframe) (m : meth) : lframe :=
  match vec_op lim m with
  | Some f => lift k f lf
  | None =>
      match m with
      | MNona => filter (fun p => negb (all_nan (snd p))) lf
      | _ => dropwhile (fun p => all_nan (snd p)) lf
      end
  end.

(* for m in methods: res = ... *)
Definition fill (k : nat) (lim : option nat) (ms : list meth) (lf : lframe) : lframe :=
  fold_left (fill1 k lim) ms lf.

(* the ndarray arm: pd.Series(arr)/pd.DataFrame(arr) -> df_fillna -> .values *)
Definition range_labels (n : nat) : list Z := map Z.of_nat (seq 0 n).
Definition of_array (rows : list row) : lframe := combine (range_labels (length rows)) rows.
Definition fill_array (k : nat) (lim : option nat) (ms : list meth) (rows : list row) : list row :=
  map snd (fill k lim ms (of_array rows)).

(* ---- nona(a, value, edge) *)
Definition cell_is (value : cell) (c : cell) : bool :=
  match value, c with
  | None, None => true
  | Some v, Some x => val_eqb x v
  | _, _ => false
  end.
Definition masked (value : cell) (p : Z * row) : bool := forallb (cell_is value) (snd p).
Inductive edge := EAll | ELatest | EHistoric.      (* None / 1 / -1 *)
Definition nona_f (value : cell) (e : edge) (lf : lframe) : lframe :=
  let res := filter (fun p => negb (masked value p)) lf in
  match e, res with
  | EAll, _ => res
  | _, [] => res
  | ELatest, _ => rev (dropwhile (masked value) (rev lf))    (* df_slice(df, ub = res.index[-1], '[]') *)
  | EHistoric, _ => dropwhile (masked value) lf               (* df_slice(df, lb = res.index[0], '[]') *)
  end.
(* ndarray: same rows by position (REPAIRED form, as nona's docstring states:
   nona(a, edge = 1) keeps interior NaNs; the pinned tree ignores `edge` unless is_pd(df)) *)
Definition nona_array (value : cell) (e : edge) (rows : list row) : list row :=
  map snd (nona_f value e (of_array rows)).

(* a call as the harness observes it: (returned object, the argument re-inspected afterwards).
   The code never assigns into `df`: every pandas call above returns a new object. *)
Definition fill_call (k : nat) (lim : option nat) (ms : list meth) (lf : lframe) : lframe * lframe :=
  (fill k lim ms lf, lf).
Definition nona_call (value : cell) (e : edge) (lf : lframe) : lframe * lframe :=
  (nona_f value e lf, lf).
