(* C18 — executable model of argument binding (_inspect.py getcallargs / call_with_callargs),
   the wrapper construction rule and the try_* / kwargs_support / cache behaviours
   (_decorators.py, _cache.py).  Definitions only; proofs are in proofs/P_deco.v. *)
From Coq Require Import List Bool Ascii String Arith ZArith.
From PB Require Import model.M_keys.
Import ListNotations.
Local Open Scope string_scope.
Local Open Scope list_scope.

(* ------------------------------------------------------------------ signatures, calls, bindings *)
Section Bind.
  Context {V : Type}.

  (* def f(p1, ..., pn, *args, **kw) with the last [length defs] parameters defaulted *)
  Record sig := { pos : list string; defs : list V; varargs : bool; varkw : bool }.
  Definition call := (list V * list (string * V))%type.

  Inductive bval := BV (v : V) | BT (l : list V) | BD (d : list (string * V)).
  Definition bvs (l : list (string * V)) : amap bval := map (fun kv => (fst kv, BV (snd kv))) l.
  Definition VARGS := "args".
  Definition VKW := "kw".

  Definition ndef (s : sig) : nat := List.length (defs s).
  Definition npos (s : sig) : nat := List.length (pos s).
  (* parameters that have a default, with it *)
  Definition defaults_of (s : sig) : list (string * V) := combine (skipn (npos s - ndef s) (pos s)) (defs s).

  (* ---- specification: inspect.getcallargs.  None = TypeError *)
  Fixpoint bind_params (ps : list string) (args : list V) (kwargs dflt : list (string * V)) : option (list (string * V)) :=
    match ps with
    | [] => Some []
    | p :: ps' =>
        match args with
        | a :: args' =>                                  (* filled positionally; a keyword for it is an error *)
            match aget p kwargs with
            | Some _ => None
            | None => match bind_params ps' args' kwargs dflt with Some r => Some ((p, a) :: r) | None => None end
            end
        | [] =>
            match (match aget p kwargs with Some v => Some v | None => aget p dflt end) with
            | Some v => match bind_params ps' [] kwargs dflt with Some r => Some ((p, v) :: r) | None => None end
            | None => None                               (* missing required argument *)
            end
        end
    end.
  Definition extra_kw (s : sig) (kwargs : list (string * V)) : list (string * V) :=
    filter (fun kv => negb (inl (fst kv) (pos s))) kwargs.
  Definition named_kw (s : sig) (kwargs : list (string * V)) : list (string * V) :=
    filter (fun kv => inl (fst kv) (pos s)) kwargs.
  Definition bind (s : sig) (c : call) : option (amap bval) :=
    let '(args, kwargs) := c in
    let extra := skipn (npos s) args in
    if negb (varargs s) && negb (Nat.eqb (List.length extra) 0) then None          (* too many positional arguments *)
    else if negb (varkw s) && negb (Nat.eqb (List.length (extra_kw s kwargs)) 0) then None   (* unexpected keyword *)
    else match bind_params (pos s) args kwargs (defaults_of s) with
         | None => None
         | Some r => Some (bvs r ++ (if varargs s then [(VARGS, BT extra)] else [])
                                 ++ (if varkw s then [(VKW, BD (extra_kw s kwargs))] else []))
         end.

  (* ---- the library's re-implementation: pyg_base.getcallargs *)
  Inductive lres (R : Type) := LOk (r : R) | LErr (e : string).
  Arguments LOk {R} r.
  Arguments LErr {R} e.
  Definition lib_getcallargs (s : sig) (c : call) : lres (amap bval) :=
    let '(args, kwargs) := c in
    let a2k := combine (pos s) args in                                   (* dict(zip(arg_names, args)) *)
    if existsb (fun kv => ahas (fst kv) a2k) kwargs then LErr "ValueError"  (* duplicates *)
    else
      let res1 := aupdate (bvs (defaults_of s)) (bvs a2k) in             (* defaults, then positional *)
      let extra := skipn (npos s) args in
      if negb (varargs s) && negb (Nat.eqb (List.length extra) 0)
      then LErr (if Nat.eqb (List.length extra) 1 then "ValueError" else "TypeError")
           (* raise ValueError('... %s ...' % varargs): with two or more extra arguments the % itself raises TypeError *)
      else
        let res2 := if varargs s then aset VARGS (BT extra) res1 else res1 in
        LOk (if varkw s
             then aupdate (aset VKW (BD (extra_kw s kwargs)) res2) (bvs (named_kw s kwargs))
             else aupdate res2 (bvs kwargs)).

  (* the Python entry point getcallargs(function, *args, **kwargs) cannot take a keyword named function *)
  Definition lib_getcallargs_py (s : sig) (c : call) : lres (amap bval) :=
    if inl "function" (map fst (snd c)) then LErr "TypeError" else lib_getcallargs s c.

  (* ---- keyword-only parameters (declared after *args or a bare star), each with its default if it has one.
     inspect.getcallargs: they are bound by keyword only, from the call or their default *)
  Definition ko_defaults (ko : list (string * option V)) : list (string * V) :=
    flat_map (fun p => match snd p with Some v => [(fst p, v)] | None => [] end) ko.
  Fixpoint bind_ko (ko : list (string * option V)) (kwargs : list (string * V)) : option (list (string * V)) :=
    match ko with
    | [] => Some []
    | (k, d) :: ko' =>
        match (match aget k kwargs with Some v => Some v | None => d end) with
        | Some v => match bind_ko ko' kwargs with Some l => Some ((k, v) :: l) | None => None end
        | None => None
        end
    end.
  Definition bindk (s : sig) (ko : list (string * option V)) (c : call) : option (amap bval) :=
    let names := map fst ko in
    match bind s (fst c, filter (fun kv => negb (inl (fst kv) names)) (snd c)), bind_ko ko (snd c) with
    | Some r, Some l => Some (r ++ bvs l)
    | _, _ => None
    end.
  (* pyg_base.getcallargs knows keyword-only parameters only through their defaults (argspec_defaults); a keyword naming
     one is treated like any keyword that is not a positional parameter (top level without **kw, inside the **kw dict with it) *)
  Definition lib_getcallargs_k (s : sig) (ko : list (string * option V)) (c : call) : lres (amap bval) :=
    match lib_getcallargs_py s c with
    | LOk r => LOk (aupdate (bvs (ko_defaults ko)) r)
    | LErr e => LErr e
    end.

  (* ---- call_with_callargs: the (args, kwargs) it finally passes to the function *)
  Definition bv_val (b : bval) : option V := match b with BV v => Some v | _ => None end.
  Definition call_with_callargs (s : sig) (ca : amap bval) : call :=
    let va := if varargs s then match aget VARGS ca with Some (BT l) => l | _ => [] end else [] in
    let vk := if varkw s then match aget VKW ca with Some (BD d) => d | _ => [] end else [] in
    let c := if varkw s then adel VKW (if varargs s then adel VARGS ca else ca) else (if varargs s then adel VARGS ca else ca) in
    let params := aupdate (bvs (defaults_of s)) c in
    (flat_map (fun p => match aget p params with Some (BV v) => [v] | _ => [] end) (pos s) ++ va, vk).
End Bind.
Arguments sig V : clear implicits.
Arguments call V : clear implicits.
Arguments bval V : clear implicits.
Arguments LOk {R} r.
Arguments LErr {R} e.

(* ------------------------------------------------------------------ wrapper stacks *)
Inductive tag := TTry | TBack | TKws | TCache | TLoop | TPd.
Definition tag_eqb (a b : tag) : bool :=
  match a, b with
  | TTry, TTry | TBack, TBack | TKws, TKws | TCache, TCache | TLoop, TLoop | TPd, TPd => true
  | _, _ => false
  end.
(* wrapper.__init__(function): a same-type wrapper directly below is unwrapped; then walking down the chain
   every same-type wrapper found as somebody's .function is spliced out.  A chain lists the wrapper types
   from the outside in; the bare function is the end of the list *)
Definition wrap (t : tag) (chain : list tag) : list tag :=
  let chain1 := match chain with h :: tl => if tag_eqb h t then tl else chain | [] => [] end in
  t :: match chain1 with [] => [] | f :: rest => f :: filter (fun x => negb (tag_eqb x t)) rest end.
Definition wraps (ts : list tag) (chain : list tag) : list tag := fold_right wrap chain ts.
Inductive built : list tag -> Prop :=
| built_nil : built []
| built_wrap t c : built c -> built (wrap t c).
(* wrapper.fullargspec: the specification of the wrapped function, all the way down *)
Fixpoint chain_spec {V} (c : list tag) (s : sig V) : sig V := match c with [] => s | _ :: c' => chain_spec c' s end.

(* ------------------------------------------------------------------ behaviours *)
Section Behave.
  Context {V R : Type}.
  Definition outcome := lres R.                 (* what a call gives: a result or the name of the exception raised *)
  Variable none : R.                            (* try_none's fallback *)
  Variable inj : V -> R.                        (* an argument handed back as a result (try_back) *)
  (* the call pd2np hands on: the call itself when the first argument is not a pandas object (whatever exc= the
     decorator was built with: excluded keywords are passed on too); with a pandas first argument every positional
     argument and every keyword not in exc is replaced by its numpy values *)
  Variable pdcall : sig V -> call V -> call V.

  (* try_value(value = v): the fallback exactly when f raises *)
  Definition try_value (v : R) (f : call V -> outcome) (c : call V) : outcome :=
    match f c with LOk r => LOk r | LErr _ => LOk v end.
  (* try_back: the first argument (positional, else by the first parameter's name) when f raises *)
  Definition try_back (s : sig V) (f : call V -> outcome) (c : call V) : outcome :=
    match f c with
    | LOk r => LOk r
    | LErr _ => match fst c with
                | a :: _ => LOk (inj a)
                | [] => match pos s with
                        | [] => LErr "IndexError"
                        | p :: _ => match aget p (snd c) with Some v => LOk (inj v) | None => LErr "KeyError" end
                        end
                end
    end.
  (* kwargs_support: keywords not among getargs(function) are dropped *)
  Definition kwargs_support (s : sig V) (f : call V -> outcome) (c : call V) : outcome :=
    f (fst c, named_kw s (snd c)).
  (* loops on a non-container first argument hands the call on, except that its own control keyword axis is popped
     whenever a first argument is present (positionally, or by the name of the first parameter, which is then itself
     re-passed positionally: the same binding) - a parameter of f that happens to be called axis never sees its keyword *)
  Definition loops_call (s : sig V) (c : call V) : call V :=
    match fst c, pos s with
    | [], [] => c
    | [], top :: _ => if String.eqb top "axis" then c else if ahas top (snd c) then (fst c, adel "axis" (snd c)) else c
    | _ :: _, _ => (fst c, adel "axis" (snd c))
    end.
  (* cache on a single call: f itself *)
  Definition apply_tag (s : sig V) (t : tag) (f : call V -> outcome) : call V -> outcome :=
    match t with
    | TTry => try_value none f
    | TBack => try_back s f
    | TKws => kwargs_support s f
    | TLoop => fun c => f (loops_call s c)
    | TPd => fun c => f (pdcall s c)
    | TCache => f
    end.
  Definition apply_chain (s : sig V) (chain : list tag) (f : call V -> outcome) : call V -> outcome :=
    fold_right (apply_tag s) f chain.
  (* the Python entry point of a wrapper stack: wrapper.__call__(self, *args, **kwargs) cannot take a keyword named self *)
  Definition call_stack (s : sig V) (chain : list tag) (f : call V -> outcome) (c : call V) : outcome :=
    match chain with
    | [] => f c
    | _ => if inl "self" (map fst (snd c)) then LErr "TypeError" else apply_chain s chain f c
    end.
End Behave.

(* try_value over a history of calls: the caller mutates every fallback it is handed.  [copying] = the wrapper returns
   copy(self.value) (the code) rather than self.value itself (then the caller's mutation hits the stored object) *)
Section TryHist.
  Context {R : Type}.
  Variable copying : bool.
  Variable mut : R -> R.
  Fixpoint try_hist (stored : R) (outs : list (lres R)) : list R :=
    match outs with
    | [] => []
    | LOk r :: outs' => r :: try_hist stored outs'
    | LErr _ :: outs' => stored :: try_hist (if copying then stored else mut stored) outs'
    end.
End TryHist.

(* ------------------------------------------------------------------ cache as a state machine *)
Section Cache.
  Context {C K R : Type}.
  Variable key : C -> K.                (* _key: normalised (args, kwargs) *)
  Variable keqb : K -> K -> bool.       (* dict key equality *)
  Variable f : nat -> C -> R.           (* the n-th evaluation of the wrapped function (it may be stateful) *)

  Record cstate := { store : list (K * R); trace : list C; rets : list R }.
  Fixpoint clookup (k : K) (st : list (K * R)) : option R :=
    match st with [] => None | (k', r) :: st' => if keqb k k' then Some r else clookup k st' end.
  Definition cstep (st : cstate) (c : C) : cstate :=
    match clookup (key c) (store st) with
    | Some r => {| store := store st; trace := trace st; rets := rets st ++ [r] |}
    | None => let r := f (List.length (trace st)) c in
              {| store := store st ++ [(key c, r)]; trace := trace st ++ [c]; rets := rets st ++ [r] |}
    end.
  Definition crun (cs : list C) : cstate := fold_left cstep cs {| store := []; trace := []; rets := [] |}.
  (* a call whose key cannot be hashed is not cached at all: the lookup raises, the except arm evaluates f, nothing is stored *)
  Variable hashable : C -> bool.
  Definition cstepu (st : cstate) (c : C) : cstate :=
    if hashable c then cstep st c
    else let r := f (List.length (trace st)) c in {| store := store st; trace := trace st ++ [c]; rets := rets st ++ [r] |}.
  Definition crunu (cs : list C) : cstate := fold_left cstepu cs {| store := []; trace := []; rets := [] |}.
End Cache.

(* ------------------------------------------------------------------ concrete argument values and the cache key *)
Inductive av := AInt (z : Z) | AFloat (z : Z) | ABool (b : bool) | AStr (s : string) | ANone
              | ATup (l : list av) | AList (l : list av) | ADict (d : list (string * av))
              | AUnh (id : Z).      (* the id-th of a fixed list of arguments that stay unhashable after _prehash: numpy arrays, Series, sets *)
(* the repaired _prehash keeps the kind of container; code k1 = code k2 iff the two keys are equal as Python
   dict keys (1 == 1.0 == True); dict items sorted by key *)
Fixpoint sinsert {X} (p : string * X) (l : list (string * X)) : list (string * X) :=
  match l with
  | [] => [p]
  | q :: l' => if String.leb (fst p) (fst q) then p :: q :: l' else q :: sinsert p l'
  end.
Definition ssort {X} (l : list (string * X)) : list (string * X) := fold_right sinsert [] l.
Definition str_code (s : string) : list Z :=
  Z.of_nat (String.length s) :: map (fun c => Z.of_nat (nat_of_ascii c)) (list_ascii_of_string s).
Fixpoint pcode (tagged : bool) (a : av) : list Z :=
  match a with
  | AInt z => [0; z]%Z
  | AFloat z => [0; z]%Z
  | ABool b => [0; if b then 1 else 0]%Z
  | AStr s => (1 :: str_code s)%Z
  | ANone => [2]%Z
  | ATup l => (3 :: Z.of_nat (List.length l) :: flat_map (pcode tagged) l)%Z
  | AList l => ((if tagged then 4 else 3) :: Z.of_nat (List.length l) :: flat_map (pcode tagged) l)%Z
  | ADict d =>
      let items := (fix go (d : list (string * av)) : list (string * list Z) :=
                      match d with [] => [] | (k, v) :: d' => (k, pcode tagged v) :: go d' end) d in
      ((if tagged then 5 else 3) :: Z.of_nat (List.length d)
         :: flat_map (fun kc => (if tagged then [] else [3; 2]%Z) ++ 1%Z :: str_code (fst kc) ++ snd kc) (ssort items))%Z
  | AUnh id => [6; id]%Z
  end.
Fixpoint unhashable (a : av) : bool :=
  match a with
  | AUnh _ => true
  | ATup l | AList l => existsb unhashable l
  | ADict d => (fix go (d : list (string * av)) : bool := match d with [] => false | (_, v) :: d' => unhashable v || go d' end) d
  | _ => false
  end.
Definition call_unhashable (c : call av) : bool := existsb unhashable (fst c) || existsb (fun kv => unhashable (snd kv)) (snd c).
(* key of a call: (prehash of args, sorted prehash of kwargs) *)
Definition call_key (tagged : bool) (c : call av) : list Z :=
  (Z.of_nat (List.length (fst c)) :: flat_map (pcode tagged) (fst c)) ++
  (Z.of_nat (List.length (snd c)) :: flat_map (fun kv => 1%Z :: str_code (fst kv) ++ pcode tagged (snd kv)) (ssort (snd c))).
