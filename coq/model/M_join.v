(* C02 — model of dictable._listby / join / xor (src/pyg_base/_dictable.py) and of the key
   ordering of _sort.cmp restricted to scalar cells.  Definitions only.

   Layout mirrors the code:
     cells / ccmp / tcmp   : _sort.cmp on None, int/float (1 == 1.0), NaN, str, datetime and tuples of them
     Section Merge         : generic in the key type, its comparison kcmp and the group/match test geq
        isort              : sort(list(zip(keys, range(n))))            (_listby, line 1)
        group_runs         : the run-List.length loop of _listby (group key = key of the LAST row of the run)
        skip_l/skip_r/merge: the three nested while loops of join / xor, outer loop fuelled
        smerge             : the textbook one-step merge (spec the loops are proved equal to)
        spec_pairs         : nested-loop relational join  [(i,j) | key_x i ~ key_y j]   (the property text)
     tables                : ctable = dict of lists, lcols/rcols spellings, modes, join_table / xor_table
   The pinned tree groups/matches with == (py_eq_key) while the cursors move on cmp; the repaired code
   (fixes/C02.patch) uses cmp == 0 for both: geq is a parameter so both are instances.
   Not modelled literally: the (None, []) sentinel group _listby returns for an empty table is "no group"
   (it holds no rows and sorts below every tuple key, so no observable output depends on it). *)
From Coq Require Import ZArith List Bool String Ascii.
Import ListNotations.
Open Scope Z_scope.

(* ------------------------------------------------------------------ cells and cmp *)
Inductive cell :=
| CNone
| CNum (isfloat : bool) (scaled : Z)     (* finite number scaled / 2^80 (exact for ints of any size and for floats >= 2^-80 in magnitude); 1 and 1.0 differ only in isfloat *)
| CNaN (id : N)                          (* a NaN object; id = object identity *)
| CStr (s : list Z)                      (* code points *)
| CDate (us : Z)
| CInf (neg : bool)                      (* float('-inf') / float('inf') *)
| CList (tuple : bool) (l : list Z).     (* a list / tuple valued cell: only ever a NON-key cell, carried opaquely *)

Definition SCALE : Z := 1208925819614629174706176.     (* 2^80 *)
Definition cint (n : Z) : cell := CNum false (n * SCALE).

Definition zcmp (a b : Z) : Z := if a <? b then -1 else if b <? a then 1 else 0.

Fixpoint lcmp (a b : list Z) : Z :=          (* native str < / > *)
  match a, b with
  | [], [] => 0
  | [], _ => -1
  | _, [] => 1
  | x :: a', y :: b' => let c := zcmp x y in if c =? 0 then lcmp a' b' else c
  end.

(* rank of str(type(x)) after int -> float: "<class 'NoneType'>" < "<class 'datetime.datetime'>" < "<class 'float'>" < "<class 'str'>" *)
Definition rank (c : cell) : Z :=
  match c with CNone => 0 | CDate _ => 1 | CNum _ _ => 2 | CNaN _ => 2 | CInf _ => 2 | CStr _ => 3 | CList _ _ => 4 end.
(* inside the floats: -inf < every finite number < +inf < NaN (NaN ~ NaN, inf ~ inf of the same sign only) *)
Definition nclass (c : cell) : Z :=
  match c with CInf true => 0 | CNum _ _ => 1 | CInf false => 2 | CNaN _ => 3 | _ => 0 end.

Definition ccmp (a b : cell) : Z :=
  if rank a <? rank b then -1 else if rank b <? rank a then 1 else
  if nclass a <? nclass b then -1 else if nclass b <? nclass a then 1 else
  match a, b with
  | CDate x, CDate y => zcmp x y
  | CNum _ x, CNum _ y => zcmp x y
  | CStr s, CStr t => lcmp s t
  | _, _ => 0                         (* None/None, NaN/NaN, inf/inf of one sign; list cells are never keys *)
  end.

Fixpoint cmparr (a b : list cell) : Z :=
  match a, b with
  | x :: a', y :: b' => let c := ccmp x y in if c =? 0 then cmparr a' b' else c
  | _, _ => 0
  end.

(* cmp on two key tuples: same type, then len0, then cmparr *)
Definition tcmp (a b : list cell) : Z :=
  let c := zcmp (Z.of_nat (List.length a)) (Z.of_nat (List.length b)) in
  if c =? 0 then cmparr a b else c.

Definition tkeq (a b : list cell) : bool := tcmp a b =? 0.

(* Python == on cells / tuples of cells (tuple == short-cuts on identity, so a NaN equals itself only) *)
Definition py_eq_cell (a b : cell) : bool :=
  match a, b with
  | CNone, CNone => true
  | CNum _ x, CNum _ y => x =? y
  | CNaN i, CNaN j => N.eqb i j
  | CStr s, CStr t => lcmp s t =? 0
  | CDate x, CDate y => x =? y
  | CInf a, CInf b => Bool.eqb a b
  | _, _ => false
  end.
Fixpoint py_eq_key (a b : list cell) : bool :=
  match a, b with
  | [], [] => true
  | x :: a', y :: b' => py_eq_cell x y && py_eq_key a' b'
  | _, _ => false
  end.

(* ------------------------------------------------------------------ generic sort / group / merge *)
Section Merge.
  Variable key : Type.
  Variable kcmp : key -> key -> Z.
  Variable geq : key -> key -> bool.     (* the test used to group rows and to match groups *)

  Definition grp := (key * list nat)%type.

  (* sort of the (key, row index) pairs: stable insertion sort by key = the order of cmp on (key, i) *)
  Fixpoint insert (x : key * nat) (l : list (key * nat)) : list (key * nat) :=
    match l with
    | [] => [x]
    | y :: l' => if kcmp (fst x) (fst y) <=? 0 then x :: l else y :: insert x l'
    end.
  Fixpoint isort (l : list (key * nat)) : list (key * nat) :=
    match l with [] => [] | x :: l' => insert x (isort l') end.

  (* run-List.length grouping: consecutive rows stay in one group while geq key prev; the group is
     labelled with the key of its last row (prev at the time the group is closed) *)
  Fixpoint group_runs (l : list (key * nat)) : list grp :=
    match l with
    | [] => []
    | x :: l' =>
        let rest := group_runs l' in
        match l', rest with
        | y :: _, (kr, is) :: gs =>
            if geq (fst y) (fst x) then (kr, snd x :: is) :: gs else (fst x, [snd x]) :: (kr, is) :: gs
        | _, _ => [(fst x, [snd x])]
        end
    end.

  Definition listby (ks : list key) : list grp :=
    group_runs (isort (combine ks (seq 0 (List.length ks)))).

  Inductive ev := OnlyL (g : grp) | OnlyR (g : grp) | Both (gl gr : grp).

  (* while l<ls and r<rs and cmp(lxs[l], rxs[r]) == -1: l += 1     -> (skipped groups, remaining) *)
  Fixpoint skip_l (L R : list grp) : list grp * list grp :=
    match L, R with
    | gl :: L', gr :: _ =>
        if kcmp (fst gl) (fst gr) =? -1 then let (s, L2) := skip_l L' R in (gl :: s, L2) else ([], L)
    | _, _ => ([], L)
    end.
  (* while l<ls and r<rs and cmp(lxs[l], rxs[r]) == 1: r += 1 *)
  Fixpoint skip_r (L R : list grp) : list grp * list grp :=
    match L, R with
    | gl :: _, gr :: R' =>
        if kcmp (fst gl) (fst gr) =? 1 then let (s, R2) := skip_r L R' in (gr :: s, R2) else ([], R)
    | _, _ => ([], R)
    end.

  (* the outer while l<ls and r<rs, one unit of fuel per iteration; None = fuel exhausted.
     Events record what join (Both) and xor (OnlyL / OnlyR, including the tail after the loop) collect. *)
  Fixpoint merge (fuel : nat) (L R : list grp) {struct fuel} : option (list ev) :=
    match L, R with
    | [], _ => Some (map OnlyR R)
    | _, [] => Some (map OnlyL L)
    | _, _ =>
        match fuel with
        | O => None
        | S f =>
            let (sl, L1) := skip_l L R in
            let (sr, R1) := skip_r L1 R in
            let pre := map OnlyL sl ++ map OnlyR sr in
            match L1, R1 with
            | gl :: L2, gr :: R2 =>
                if geq (fst gl) (fst gr)
                then option_map (fun t => pre ++ Both gl gr :: t) (merge f L2 R2)
                else option_map (fun t => pre ++ t) (merge f L1 R1)
            | _, _ => option_map (fun t => pre ++ t) (merge f L1 R1)
            end
        end
    end.

  Definition merge_fuel (L R : list grp) : nat := (List.length L + List.length R + 1)%nat.

  (* one-step merge: the specification of the loops *)
  Fixpoint smerge (L : list grp) : list grp -> list ev :=
    fix inner (R : list grp) : list ev :=
      match L, R with
      | [], _ => map OnlyR R
      | _, [] => map OnlyL L
      | gl :: L', gr :: R' =>
          let c := kcmp (fst gl) (fst gr) in
          if c =? -1 then OnlyL gl :: smerge L' R
          else if c =? 1 then OnlyR gr :: inner R'
          else Both gl gr :: smerge L' R'
      end.

  (* what join / xor read off the events *)
  Definition ev_triples (e : ev) : list (key * nat * nat) :=
    match e with
    | Both (k, il) (_, ir) => map (fun p => (k, fst p, snd p)) (list_prod il ir)   (* for l in lid for r in rid *)
    | _ => []
    end.
  Definition ev_left (e : ev) : list nat := match e with OnlyL (_, il) => il | _ => [] end.
  Definition ev_right (e : ev) : list nat := match e with OnlyR (_, ir) => ir | _ => [] end.
  Definition ev_matched (e : ev) : list nat := match e with Both (_, il) _ => il | _ => [] end.

  Definition merged (lk rk : list key) : option (list ev) :=
    let L := listby lk in let R := listby rk in merge (merge_fuel L R) L R.

  Definition join_triples (lk rk : list key) : option (list (key * nat * nat)) :=
    option_map (flat_map ev_triples) (merged lk rk).
  Definition pair_of (t : key * nat * nat) : nat * nat := (snd (fst t), snd t).
  Definition join_pairs (lk rk : list key) : option (list (nat * nat)) :=
    option_map (map pair_of) (join_triples lk rk).
  Definition xor_rows (lk rk : list key) : option (list nat) :=          (* x / y : mode 'l' *)
    option_map (flat_map ev_left) (merged lk rk).
  Definition xor_rows_r (lk rk : list key) : option (list nat) :=        (* mode 'r' : rows of y *)
    option_map (flat_map ev_right) (merged lk rk).
  Definition matched_rows (lk rk : list key) : option (list nat) :=
    option_map (flat_map ev_matched) (merged lk rk).

  (* ---- the property's own description: nested loops over the rows *)
  Definition indexed (ks : list key) : list (key * nat) := combine ks (seq 0 (List.length ks)).
  Definition spec_pairs (lk rk : list key) : list (nat * nat) :=
    flat_map (fun ai => flat_map (fun bj => if kcmp (fst ai) (fst bj) =? 0 then [(snd ai, snd bj)] else [])
                                 (indexed rk)) (indexed lk).
  Definition spec_anti (lk rk : list key) : list nat :=
    flat_map (fun ai => if forallb (fun b => negb (kcmp (fst ai) b =? 0)) rk then [snd ai] else []) (indexed lk).
  Definition cross_pairs (n m : nat) : list (nat * nat) := list_prod (seq 0 n) (seq 0 m).
End Merge.

Arguments OnlyL {key}. Arguments OnlyR {key}. Arguments Both {key}.

(* ------------------------------------------------------------------ tables *)
Definition ctable := list (string * list cell).
Definition names (t : ctable) : list string := map fst t.
Definition nrows (t : ctable) : nat := match t with [] => 0%nat | (_, c) :: _ => List.length c end.
Fixpoint col (t : ctable) (n : string) : option (list cell) :=
  match t with [] => None | (m, c) :: t' => if String.eqb n m then Some c else col t' n end.
Definition mem (n : string) (l : list string) : bool := existsb (String.eqb n) l.
Definition minus (a b : list string) := filter (fun n => negb (mem n b)) a.
Definition inter (a b : list string) := filter (fun n => mem n b) a.

(* the named callables the correspondence uses as computed keys *)
Inductive rowfun :=
| RId (a : string)             (* lambda a: a *)
| RIsNone (a : string)         (* lambda a: 0 if a is None else 1 *)
| RCoalesce (a b : string)     (* lambda a, b: b if a is None else a *)
| RConst (a : string).         (* lambda a: 7 *)
Inductive item := KCol (n : string) | KFun (f : rowfun).
Inductive spec := SNone | SOne (i : item) | SList (l : list item).
Inductive jmode := MNone | MLeft | MRight | MCoalesce | MSwap.

Definition eval_item (t : ctable) (it : item) : option (list cell) :=
  match it with
  | KCol n => col t n
  | KFun (RId a) => col t a
  | KFun (RIsNone a) => option_map (map (fun c => match c with CNone => cint 0 | _ => cint 1 end)) (col t a)
  | KFun (RCoalesce a b) =>
      match col t a, col t b with
      | Some ca, Some cb => Some (map (fun p => match fst p with CNone => snd p | c => c end) (combine ca cb))
      | _, _ => None
      end
  | KFun (RConst a) => option_map (map (fun _ => cint 7)) (col t a)
  end.
Fixpoint eval_items (t : ctable) (its : list item) : option (list (list cell)) :=
  match its with
  | [] => Some []
  | it :: r => match eval_item t it, eval_items t r with Some c, Some cs => Some (c :: cs) | _, _ => None end
  end.
(* the rows of keys: list of zip of the key columns, self[by] with by a tuple *)
Definition row_keys (n : nat) (cols : list (list cell)) : list (list cell) :=
  map (fun i => map (fun c => nth i c CNone) cols) (seq 0 n).

Definition resolve_l (x y : ctable) (lc : spec) : list item :=
  match lc with SNone => map KCol (inter (names x) (names y)) | SOne i => [i] | SList l => l end.
Definition resolve_r (l1 : list item) (rc : spec) : list item :=
  match rc with SNone => l1 | SOne i => [i] | SList l => l end.
Fixpoint key_names (l r : list item) : option (list string) :=
  match l, r with
  | KCol n :: l', _ :: r' => option_map (cons n) (key_names l' r')
  | KFun _ :: l', KCol n :: r' => option_map (cons n) (key_names l' r')
  | KFun _ :: _, KFun _ :: _ => None
  | _, _ => Some []
  end.

Inductive ocell := OC (c : cell) | OPair (a b : cell).
Inductive res (A : Type) := Ok (a : A) | Err (e : string).
Arguments Ok {A}. Arguments Err {A}.
Definition otable := (list string * list (list (string * ocell)))%type.   (* columns, rows as records *)

Definition cellat (t : ctable) (n : string) (i : nat) : cell :=
  match col t n with Some c => nth i c CNone | None => CNone end.
Definition apply_mode (m : jmode) (a b : cell) : ocell :=
  match m with
  | MNone => OPair a b | MLeft => OC a | MRight => OC b
  | MCoalesce => OC (match a with CNone => b | _ => a end)     (* lambda l, r: r if l is None else l *)
  | MSwap => OPair b a                                          (* lambda l, r: (r, l) *)
  end.

(* column bookkeeping of join: key columns, left-only, right-only, shared non-key columns *)
Definition lkeys_of (x y : ctable) (cols : list string) : list string :=
  let lk0 := minus (names x) cols in let rk0 := minus (names y) cols in minus lk0 (inter lk0 rk0).
Definition rkeys_of (x y : ctable) (cols : list string) : list string :=
  let lk0 := minus (names x) cols in let rk0 := minus (names y) cols in minus rk0 (inter lk0 rk0).
Definition jkeys_of (x y : ctable) (cols : list string) : list string :=
  inter (minus (names x) cols) (minus (names y) cols).
Definition out_names (x y : ctable) (cols : list string) : list string :=
  cols ++ lkeys_of x y cols ++ rkeys_of x y cols ++ jkeys_of x y cols.
(* the output record for key k, left row i, right row j *)
Definition out_row (x y : ctable) (m : jmode) (cols : list string) (t : list cell * nat * nat) : list (string * ocell) :=
  let '(k, i, j) := t in
  map (fun p => (fst p, OC (snd p))) (combine cols k)
  ++ map (fun n => (n, OC (cellat x n i))) (lkeys_of x y cols)
  ++ map (fun n => (n, OC (cellat y n j))) (rkeys_of x y cols)
  ++ map (fun n => (n, apply_mode m (cellat x n i) (cellat y n j))) (jkeys_of x y cols).

Section Tables.
  Variable geq : list cell -> list cell -> bool.

  Definition join_table (x y : ctable) (lc rc : spec) (m : jmode) : res otable :=
    let l1 := resolve_l x y lc in
    let r1 := resolve_r l1 rc in
    if negb (Nat.eqb (List.length l1) (List.length r1)) then Err "ValueError" else
    match key_names l1 r1 with
    | None => Err "ValueError"
    | Some cols =>
        match cols with
        | [] => Ok (out_names x y cols, map (out_row x y m cols) (map (fun p => ([], fst p, snd p)) (cross_pairs (nrows x) (nrows y))))
        | _ =>
            match eval_items x l1, eval_items y r1 with
            | Some lcs, Some rcs =>
                match join_triples (list cell) tcmp geq (row_keys (nrows x) lcs) (row_keys (nrows y) rcs) with
                | Some ts => Ok (out_names x y cols, map (out_row x y m cols) ts)
                | None => Err "Timeout"
                end
            | _, _ => Err "KeyError"
            end
        end
    end.

  Definition take_rows (t : ctable) (rows : list nat) : otable :=
    (names t, map (fun i => map (fun n => (n, OC (cellat t n i))) (names t)) rows).

  Definition xor_table (x y : ctable) (lc rc : spec) (right : bool) : res otable :=
    let l1 := resolve_l x y lc in
    let r1 := resolve_r l1 rc in
    if negb (Nat.eqb (List.length l1) (List.length r1)) then Err "ValueError" else
    match l1 with
    | [] => Ok (take_rows x (seq 0 (nrows x)))                    (* return self.copy() *)
    | _ =>
        match eval_items x l1, eval_items y r1 with
        | Some lcs, Some rcs =>
            let lk := row_keys (nrows x) lcs in let rk := row_keys (nrows y) rcs in
            if right then match xor_rows_r (list cell) tcmp geq lk rk with Some rows => Ok (take_rows y rows) | None => Err "Timeout" end
            else match xor_rows (list cell) tcmp geq lk rk with Some rows => Ok (take_rows x rows) | None => Err "Timeout" end
        | _, _ => Err "KeyError"
        end
    end.

  (* the operands are values: a call is a function of them and hands them back untouched *)
  Definition join_st (s : ctable * ctable) lc rc m : (ctable * ctable) * res otable := (s, join_table (fst s) (snd s) lc rc m).
  Definition xor_st (s : ctable * ctable) lc rc r : (ctable * ctable) * res otable := (s, xor_table (fst s) (snd s) lc rc r).
End Tables.

Definition join_fixed := join_table tkeq.        (* repaired code: group / match on cmp == 0 *)
Definition xor_fixed := xor_table tkeq.
Definition join_pinned := join_table py_eq_key.  (* pinned tree: group / match on == *)
Definition xor_pinned := xor_table py_eq_key.
