(* Model of pyg_base._pandas alignment: _df_index / df_index / df_columns / _df_reindex /
   df_reindex / _df_recolumn / df_sync / presync, plus the structure-preserving loop of _loop.py.
   Definitions only.  pandas / numpy primitives (Index.intersection / union, reindex,
   reindex(method=pad/backfill), boolean masking, concatenate) are modelled, not verified.

   time axis : Z (day number or microseconds), strictly increasing inside one object
   cell      : option Z, None = NaN, values are carried around, never computed
   series    : gts cell;  frame : column names + gts (list cell) (one row per timestamp) *)
From Coq Require Import ZArith List Bool.
Import ListNotations.
Open Scope Z_scope.

Definition cell := option Z.
Definition is_nan (c : cell) : bool := match c with None => true | Some _ => false end.

Definition gts (V : Type) := list (Z * V).
Definition index_of {V} (s : gts V) : list Z := map fst s.

Inductive method := MNone | MFfill | MBfill.

(* ---------------- one timeseries with values in V (cells for a Series, rows for a DataFrame) *)
Section GTS.
  Context {V : Type}.
  Variable nan : V.
  Variable isnan : V -> bool.

  Fixpoint lookup (t : Z) (s : gts V) : option V :=
    match s with
    | [] => None
    | (u, v) :: r => if u =? t then Some v else lookup t r
    end.
  Definition at_ (s : gts V) (t : Z) : V := match lookup t s with Some v => v | None => nan end.
  (* ts.reindex(index) *)
  Definition reindex (s : gts V) (idx : list Z) : gts V := map (fun t => (t, at_ s t)) idx.
  (* _nona: drop the rows that are entirely NaN *)
  Definition nona (s : gts V) : gts V := filter (fun p => negb (isnan (snd p))) s.
  (* reindex(method='ffill'): the row of the last label <= t *)
  Fixpoint pad_from (acc : V) (s : gts V) (t : Z) : V :=
    match s with
    | [] => acc
    | (u, v) :: r => if u <=? t then pad_from v r t else pad_from acc r t
    end.
  Definition pad_at (s : gts V) (t : Z) : V := pad_from nan s t.
  (* reindex(method='bfill'): the row of the first label >= t *)
  Fixpoint bfill_at (s : gts V) (t : Z) : V :=
    match s with
    | [] => nan
    | (u, v) :: r => if t <=? u then v else bfill_at r t
    end.
  (* _df_reindex on a pandas object *)
  Definition reindex_m (m : method) (s : gts V) (idx : list Z) : gts V :=
    match m with
    | MNone => reindex s idx
    | MFfill => map (fun t => (t, pad_at (nona s) t)) idx
    | MBfill => map (fun t => (t, bfill_at (nona s) t)) idx
    end.
End GTS.

(* ---------------- index algebra on sorted lists of labels (timestamps or column names) *)
Definition mem (t : Z) (l : list Z) : bool := existsb (Z.eqb t) l.
Definition inter (a b : list Z) : list Z := filter (fun t => mem t b) a.
Fixpoint ins (t : Z) (l : list Z) : list Z :=
  match l with
  | [] => [t]
  | x :: r => if t <? x then t :: l else if t =? x then l else x :: ins t r
  end.
(* sorted merge: the labels of b inserted into a *)
Definition union (a b : list Z) : list Z := fold_left (fun acc t => ins t acc) b a.

(* join policy: first letter of 'ij' / 'oj' / 'lj' / 'rj', or an explicit index *)
Inductive how := HI | HO | HL | HR | HX (idx : list Z).

(* _df_index: reducing('intersection') / reducing('union') / first / last / explicit *)
Definition join_index (h : how) (idxs : list (list Z)) : option (list Z) :=
  match idxs with
  | [] => None
  | i0 :: rest =>
      Some match h with
           | HI => fold_left inter rest i0
           | HO => fold_left union rest i0
           | HL => i0
           | HR => last rest i0
           | HX x => x
           end
  end.
(* _np_index on array lengths *)
Definition np_len (h : how) (ls : list nat) : option nat :=
  match ls with
  | [] => None
  | l0 :: rest =>
      Some match h with
           | HI => fold_left Nat.min rest l0
           | HO => fold_left Nat.max rest l0
           | HL => l0
           | HR => last rest l0
           | HX _ => l0
           end
  end.

(* ---------------- numpy arm of _df_reindex: align at the end (rows of a 1-d or 2-d array) *)
Definition np_align_g {A} (pad : A) (n : nat) (a : list A) : list A :=
  if Nat.ltb n (length a) then skipn (length a - n) a else repeat pad (n - length a) ++ a.
Definition np_align (n : nat) (a : list cell) : list cell := np_align_g None n a.
Fixpoint arr_ffill (prev : cell) (a : list cell) : list cell :=
  match a with
  | [] => []
  | c :: r => let c' := match c with None => prev | Some _ => c end in c' :: arr_ffill c' r
  end.
Fixpoint arr_bfill (a : list cell) : list cell :=
  match a with
  | [] => []
  | c :: r => let r' := arr_bfill r in (match c with None => hd None r' | Some _ => c end) :: r'
  end.
Definition arr_fill (m : method) (a : list cell) : list cell :=
  match m with MNone => a | MFfill => arr_ffill None a | MBfill => arr_bfill a end.
(* 2-d arrays (rows of k cells): df_fillna goes through pd.DataFrame(arr), i.e. fills column by column *)
Definition keep_or (cp : cell * cell) : cell := match fst cp with None => snd cp | Some _ => fst cp end.
Fixpoint arr2_ffill (prev : list cell) (rows : list (list cell)) : list (list cell) :=
  match rows with
  | [] => []
  | r :: rest => let r' := map keep_or (combine r prev) in r' :: arr2_ffill r' rest
  end.
Fixpoint arr2_bfill (k : nat) (rows : list (list cell)) : list (list cell) :=
  match rows with
  | [] => []
  | r :: rest => let rest' := arr2_bfill k rest in map keep_or (combine r (hd (repeat None k) rest')) :: rest'
  end.
Definition arr2_fill (m : method) (k : nat) (rows : list (list cell)) : list (list cell) :=
  match m with MNone => rows | MFfill => arr2_ffill (repeat None k) rows | MBfill => arr2_bfill k rows end.

(* ---------------- objects and nested containers *)
Inductive obj :=
| OS (s : gts cell)                                (* pd.Series *)
| OF (cols : list Z) (rows : gts (list cell))     (* pd.DataFrame: column names, one row per timestamp *)
| OA (a : list cell)                               (* 1-d float ndarray *)
| OA2 (k : nat) (rows : list (list cell))          (* 2-d float ndarray of shape (length rows, k) *)
| ON (c : cell)                                    (* numeric scalar *)
| OX (id : Z).                                     (* any other object (str, None, ...), opaque, identified by id *)

Inductive tree := Leaf (o : obj) | TL (l : list tree) | TD (l : list (Z * tree)).

(* _list: leaves in container order *)
Fixpoint flatten (t : tree) : list obj :=
  match t with
  | Leaf o => [o]
  | TL l => flat_map flatten l
  | TD l => flat_map (fun kx => flatten (snd kx)) l
  end.
(* loops._wrapped over list / dict: same container, function applied to the leaves *)
Fixpoint tmap (f : obj -> obj) (t : tree) : tree :=
  match t with
  | Leaf o => Leaf (f o)
  | TL l => TL (map (tmap f) l)
  | TD l => TD (map (fun kx => (fst kx, tmap f (snd kx))) l)
  end.

Inductive shape := ShLeaf | ShL (l : list shape) | ShD (l : list (Z * shape)).
Fixpoint shape_of (t : tree) : shape :=
  match t with
  | Leaf _ => ShLeaf
  | TL l => ShL (map shape_of l)
  | TD l => ShD (map (fun kx => (fst kx, shape_of (snd kx))) l)
  end.

Definition is_pd (o : obj) : bool := match o with OS _ | OF _ _ => true | _ => false end.
Definition obj_index (o : obj) : option (list Z) :=
  match o with OS s => Some (index_of s) | OF _ r => Some (index_of r) | _ => None end.
Definition pd_indexes (os : list obj) : list (list Z) :=
  flat_map (fun o => match obj_index o with Some i => [i] | None => [] end) os.
Definition arr_lens (os : list obj) : list nat :=
  flat_map (fun o => match o with OA a => [length a] | OA2 _ r => [length r] | _ => [] end) os.

(* what df_index returns: nothing, a pandas index, or a numpy length *)
Inductive target := TgNone | TgIdx (i : list Z) | TgLen (n : nat).
Definition df_index (os : list obj) (h : how) : target :=
  match join_index h (pd_indexes os) with
  | Some i => TgIdx i
  | None => match np_len h (arr_lens os) with Some n => TgLen n | None => TgNone end
  end.

Definition nanrow (cols : list Z) : list cell := repeat None (length cols).
Definition row_isnan (r : list cell) : bool := forallb is_nan r.

(* _df_reindex on one leaf *)
Definition reindex_obj (tg : target) (m : method) (o : obj) : obj :=
  match tg, o with
  | TgIdx i, OS s => OS (reindex_m None is_nan m s i)
  | TgIdx i, OF c r => OF c (reindex_m (nanrow c) row_isnan m r i)
  | TgLen n, OA a => OA (arr_fill m (np_align n a))
  | TgLen n, OA2 k r => OA2 k (arr2_fill m k (np_align_g (repeat None k) n r))   (* rows only; the k columns are untouched *)
  | _, _ => o
  end.

(* df_reindex(obj, index, method): index a policy string or explicit *)
Definition df_reindex (tr : tree) (h : how) (m : method) : tree :=
  let tg := match h with HX x => TgIdx x | _ => df_index (flatten tr) h end in
  tmap (reindex_obj tg m) tr.

(* _df_reindex raises ValueError when a numpy array with more than one row meets a pandas index of another length
   (arrays mixed with timeseries); None below is that ValueError *)
Definition arr_rows (o : obj) : option nat :=
  match o with OA a => Some (length a) | OA2 _ r => Some (length r) | _ => None end.
Definition arr_clash (tg : target) (os : list obj) : bool :=
  match tg with
  | TgIdx i => existsb (fun o => match arr_rows o with
                                 | Some n => negb (Nat.eqb n (length i)) && Nat.ltb 1 n
                                 | None => false end) os
  | _ => false
  end.
Definition reindex_target (tr : tree) (h : how) : target :=
  match h with HX x => TgIdx x | _ => df_index (flatten tr) h end.
Definition df_reindex_checked (tr : tree) (h : how) (m : method) : option tree :=
  if arr_clash (reindex_target tr h) (flatten tr) then None else Some (df_reindex tr h m).

(* ---------------- columns *)
Definition row_get (c : list Z) (row : list cell) (x : Z) : cell :=
  match find (fun p => fst p =? x) (combine c row) with Some p => snd p | None => None end.
Definition column (c : list Z) (rows : gts (list cell)) (x : Z) : gts cell :=
  map (fun p => (fst p, row_get c (snd p) x)) rows.
Definition multi (c : list Z) : bool := Nat.ltb 1 (length c).
(* df_columns: the column sets of the proper (>1 column) frames *)
Definition frame_cols (os : list obj) : list (list Z) :=
  flat_map (fun o => match o with OF c _ => if multi c then [c] else [] | _ => [] end) os.
(* _df_recolumn *)
Definition recolumn_obj (C : list Z) (o : obj) : obj :=
  match o with
  | OF c r => if multi c then OF C (map (fun p => (fst p, map (row_get c (snd p)) C)) r) else o
  | _ => o
  end.

(* df_sync(dfs, join, method, columns); ch = None is columns=None/False *)
Definition df_sync (tr : tree) (h : how) (m : method) (ch : option how) : tree :=
  match tr with
  | Leaf _ => tr
  | _ =>
      let os := flatten tr in
      let tr' := tmap (reindex_obj (df_index os h) m) tr in
      match ch with
      | None => tr'
      | Some c => match join_index c (frame_cols os) with
                  | None => tr'
                  | Some C => tmap (recolumn_obj C) tr'
                  end
      end
  end.

Definition df_sync_checked (tr : tree) (h : how) (m : method) (ch : option how) : option tree :=
  match tr with
  | Leaf _ => Some tr
  | _ => if arr_clash (df_index (flatten tr) h) (flatten tr) then None else Some (df_sync tr h m ch)
  end.

(* ---------------- presync: what the decorated function is called with *)
(* _df_column *)
Definition column_obj (x : option Z) (dflt : cell) (o : obj) : obj :=
  match o with
  | OF c r =>
      match c with
      | [c0] => OS (column c r c0)
      | _ => match x with
             | Some x => if mem x c then OS (column c r x) else ON dflt
             | None => ON dflt
             end
      end
  | _ => o
  end.
(* one entry per call of the wrapped function: the column it is called for and its arguments *)
Definition presync_calls (h : how) (m : method) (ch : option how) (dflt : cell) (args : list tree)
  : list (option Z * list tree) :=
  let os := flat_map flatten args in
  let args' := map (tmap (reindex_obj (df_index os h) m)) args in
  match ch with
  | None => [(None, args')]
  | Some c =>
      match join_index c (frame_cols os) with
      | None => [(None, map (tmap (column_obj None dflt)) args')]
      | Some C => map (fun x => (Some x, map (tmap (column_obj (Some x) dflt)) args')) C
      end
  end.

(* ---------------- well-formedness (the property's input domain) and spec vocabulary *)
Fixpoint sorted (l : list Z) : Prop :=
  match l with [] => True | x :: r => (forall y, In y r -> x < y) /\ sorted r end.
Definition wf_obj (o : obj) : Prop :=
  match o with
  | OS s => sorted (index_of s)
  | OF c r => sorted (index_of r) /\ sorted c /\ Forall (fun p => length (snd p) = length c) r
  | _ => True
  end.
Definition wf_tree (t : tree) : Prop := Forall wf_obj (flatten t).

Section SPEC.
  Context {V : Type}.
  Variable nan : V.
  Variable isnan : V -> bool.
  (* v is the last non-NaN observation of s at or before t, NaN if there is none *)
  Definition last_obs (s : gts V) (t : Z) (v : V) : Prop :=
    (exists u, In (u, v) s /\ isnan v = false /\ u <= t /\
               forall u' v', In (u', v') s -> isnan v' = false -> u' <= t -> u' <= u)
    \/ (v = nan /\ forall u' v', In (u', v') s -> isnan v' = false -> t < u').
  (* v is the next non-NaN observation of s at or after t, NaN if there is none *)
  Definition next_obs (s : gts V) (t : Z) (v : V) : Prop :=
    (exists u, In (u, v) s /\ isnan v = false /\ t <= u /\
               forall u' v', In (u', v') s -> isnan v' = false -> t <= u' -> u <= u')
    \/ (v = nan /\ forall u' v', In (u', v') s -> isnan v' = false -> u' < t).
End SPEC.
