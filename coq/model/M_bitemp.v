(* Model of pyg_base._bitemporal (Bi, bi_merge, _drop_repeats, bi_read, _as_what) for a
   single-valued series.  A bitemporal frame is the list of its rows in frame order:
   (observation date, 'updated' stamp, value) with None = NaN; values are carried, never
   computed.  Definitions only.  The sort is STABLE (the repaired code: kind='stable'). *)
From Coq Require Import ZArith List Bool.
Import ListNotations.
Open Scope Z_scope.

Definition row := (Z * Z * option Z)%type.
Definition rd (r : row) : Z := fst (fst r).          (* index (observation date) *)
Definition rs (r : row) : Z := snd (fst r).          (* 'updated' column *)
Definition rv (r : row) : option Z := snd r.         (* value column *)
Definition row0 : row := (0, 0, None).

(* a publication: (stamp, series as (date, value) rows) *)
Definition version := (Z * list (Z * option Z))%type.
(* Bi(series, stamp): the same rows with df['updated'] = stamp *)
Definition Bi (v : version) : list row := map (fun p => (fst p, fst v, snd p)) (snd v).

(* df.sort_values('updated', kind='stable'): insertion sort, equal keys keep frame order *)
Fixpoint insert (r : row) (l : list row) : list row :=
  match l with
  | [] => [r]
  | y :: l' => if rs r <=? rs y then r :: l else y :: insert r l'
  end.
Definition ssort (l : list row) : list row := fold_right insert [] l.

(* groupby(index) iterates the distinct index values in increasing order *)
Fixpoint uinsert (x : Z) (l : list Z) : list Z :=
  match l with
  | [] => [x]
  | y :: l' => if x <? y then x :: l else if x =? y then l else y :: uinsert x l'
  end.
Definition sort_uniq (l : list Z) : list Z := fold_right uinsert [] l.
Definition on_date (d : Z) (r : row) : bool := rd r =? d.
Definition le_stamp (T : Z) (r : row) : bool := rs r <=? T.

(* ---- _drop_repeats on one date's rows (already in stamp order) *)
Definition upd (prev x : option Z) : option Z := match x with Some _ => x | None => prev end.   (* ffill step *)
Definition veq (a b : option Z) : bool :=                 (* numpy ==, NaN <> NaN *)
  match a, b with Some x, Some y => x =? y | _, _ => false end.
(* rows whose forward-filled value equals the forward-filled value of the row above are dropped *)
Fixpoint drop_eq (prev : option Z) (l : list row) : list row :=
  match l with
  | [] => []
  | r :: l' => let cur := upd prev (rv r) in
               if veq cur prev then drop_eq cur l' else r :: drop_eq cur l'
  end.
(* drop_duplicates(subset=['updated'], keep='last') *)
Fixpoint keep_last (l : list row) : list row :=
  match l with
  | [] => []
  | r :: l' => if existsb (fun r' => rs r' =? rs r) l' then keep_last l' else r :: keep_last l'
  end.
Definition drop_repeats (l : list row) : list row := keep_last (drop_eq None l).

(* ---- bi_merge(old, new): a lone frame is returned as is; otherwise concat, stable sort
   by stamp, group by date, _drop_repeats each group, concat the groups *)
Definition merge_frames (l : list row) : list row :=
  let g := ssort l in
  flat_map (fun d => drop_repeats (filter (on_date d) g)) (sort_uniq (map rd g)).
Definition bi_merge (old new : list row) : list row :=
  match old with [] => new | _ => merge_frames (old ++ new) end.
(* bi_merge(old, [new1; new2; ...]): one call with several new frames (old = [] stands for None) *)
Definition bi_merge_list (old : list row) (news : list (list row)) : list row :=
  match (match old with [] => [] | _ => [old] end) ++ news with
  | [] => []
  | [f] => f
  | fs => merge_frames (concat fs)
  end.
Definition store_of_groups (gs : list (list version)) : list row :=
  fold_left (fun st g => bi_merge_list st (map Bi g)) gs [].
Definition store_of (h : list version) : list row := fold_left (fun st v => bi_merge st (Bi v)) h [].

(* ---- bi_read(df, asof, what:int): filter updated <= asof, stable sort by stamp, group by
   date, _nth of each group *)
Definition nth_what (n : Z) (l : list row) : row :=
  let len := Z.of_nat (length l) in
  if 0 <=? n then nth (Z.to_nat (Z.min n (len - 1))) l row0
  else nth (Z.to_nat (len + Z.max n (- len))) l row0.
Definition bi_read (st : list row) (asof : option Z) (n : Z) : list (Z * option Z) :=
  let f := match asof with Some T => filter (le_stamp T) st | None => st end in
  let g := ssort f in
  map (fun d => (d, rv (nth_what n (filter (on_date d) g)))) (sort_uniq (map rd g)).

(* ---- the property's specification, over the publication history in merge order *)
(* ffilled last value of a list of rows: the last non-NaN value, NaN if there is none *)
Definition lastv (prev : option Z) (l : list row) : option Z := fold_left upd (map rv l) prev.
(* everything published for date d, in merge order *)
Definition pubs (h : list version) (d : Z) : list row := filter (on_date d) (flat_map Bi h).
(* as of T: None = no row for d; Some v = the latest value published with stamp <= T (for a
   history merged in non-decreasing stamp order, "latest, the one merged last among equal
   stamps" is the last in merge order; a NaN never overrides an earlier value) *)
Definition latest_le (T : Z) (h : list version) (d : Z) : option (option Z) :=
  match filter (le_stamp T) (pubs h d) with [] => None | q => Some (lastv None q) end.
(* the first value published for d: the value as of d's first stamp *)
Definition first_pub (h : list version) (d : Z) : option Z :=
  match pubs h d with [] => None | r :: _ => lastv None (filter (le_stamp (rs r)) (pubs h d)) end.
Definition hist_dates (h : list version) : list Z := sort_uniq (map rd (flat_map Bi h)).
Definition spec_read (T : Z) (h : list version) : list (Z * option Z) :=
  flat_map (fun d => match latest_le T h d with Some v => [(d, v)] | None => [] end) (hist_dates h).
Definition spec_first (T : Z) (h : list version) : list (Z * option Z) :=
  flat_map (fun d => match latest_le T h d with Some _ => [(d, first_pub h d)] | None => [] end) (hist_dates h).

(* hypotheses of the property *)
Fixpoint stamps_nondecreasing (h : list version) : Prop :=
  match h with
  | [] => True
  | v :: h' => Forall (fun w => fst v <= fst w) h' /\ stamps_nondecreasing h'
  end.
(* each version is a series: one row per date *)
Definition series_ok (h : list version) : Prop := Forall (fun v => NoDup (map fst (snd v))) h.
Definition hist_le (T : Z) (h : list version) : list version := filter (fun v => fst v <=? T) h.
