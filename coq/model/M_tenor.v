(* The period tokeniser of pyg_base._dates.dt_bump, on strings:
     bump = bump.lower(); bump = _bumps.get(bump, bump)
     while period.search(bump): bmp = match; bump = bump[len(bmp):]; apply bmp
     if len(bump): ... raise ValueError            (time-zone names are outside the model)
   with period = '^[-+]{0,1}[0-9]+[dbwmqyhnsDBWMQYHNS]{1}'.  Definitions only. *)
From Coq Require Import ZArith List Bool String Ascii.
From PB Require Import model.M_cal model.M_dates.
Import ListNotations.
Open Scope Z_scope.

Definition code (c : ascii) : Z := Z.of_nat (nat_of_ascii c).
Definition digit_val (c : ascii) : option Z :=
  let n := code c in if (48 <=? n) && (n <=? 57) then Some (n - 48) else None.
Definition lower (c : ascii) : ascii :=
  let n := code c in if (65 <=? n) && (n <=? 90) then ascii_of_nat (Z.to_nat (n + 32)) else c.

Definition unit_of (c : ascii) : option unit_ :=
  match lower c with
  | "d"%char => Some UD | "b"%char => Some UB | "w"%char => Some UW | "m"%char => Some UM
  | "q"%char => Some UQ | "y"%char => Some UY | "h"%char => Some UH | "n"%char => Some UN
  | "s"%char => Some US | _ => None
  end.

(* [0-9]+ : value, number of digits consumed, rest *)
Fixpoint take_digits (l : list ascii) (acc : Z) (cnt : nat) : Z * nat * list ascii :=
  match l with
  | c :: r => match digit_val c with Some d => take_digits r (acc * 10 + d) (S cnt) | None => (acc, cnt, l) end
  | [] => (acc, cnt, [])
  end.

(* one match of the regex at the start of the string *)
Definition token (l : list ascii) : option ((Z * unit_) * list ascii) :=
  let '(sgn, l1) := match l with
                    | "-"%char :: r => (-1, r)
                    | "+"%char :: r => (1, r)
                    | _ => (1, l)
                    end in
  match take_digits l1 0 0 with
  | (n, S _, c :: rest) => match unit_of c with Some u => Some ((sgn * n, u), rest) | None => None end
  | _ => None
  end.

Fixpoint tokens_fuel (fuel : nat) (l : list ascii) : option (list (Z * unit_)) :=
  match fuel with
  | O => None
  | S f => match l with
           | [] => Some []
           | _ => match token l with
                  | Some (tk, rest) => match tokens_fuel f rest with Some ts => Some (tk :: ts) | None => None end
                  | None => None            (* leftover text: ValueError *)
                  end
           end
  end.

Definition named (s : string) : string :=
  if String.eqb s "spot" then "0b" else if String.eqb s "on" then "1b" else if String.eqb s "o/n" then "1b"
  else if String.eqb s "tn" then "2b" else if String.eqb s "t/n" then "2b"
  else if String.eqb s "sn" then "3b" else if String.eqb s "s/n" then "3b" else s.

Definition lower_string (s : string) : string := string_of_list_ascii (map lower (list_ascii_of_string s)).

Definition tokenize (s : string) : option (list (Z * unit_)) :=
  let l := list_ascii_of_string (named (lower_string s)) in tokens_fuel (S (List.length l)) l.

(* dt_bump on a tenor STRING *)
Definition dt_bump_str (t : Z) (s : string) : option Z :=
  match tokenize s with Some toks => dt_bump t toks | None => None end.

(* ---- how a token list is spelt ---- *)
Definition digit_char (d : Z) : ascii := ascii_of_nat (Z.to_nat (48 + d)).
Definition letter (u : unit_) : ascii :=
  match u with UD => "d" | UB => "b" | UW => "w" | UM => "m" | UQ => "q" | UY => "y" | UH => "h" | UN => "n" | US => "s" end%char.
Inductive sign_ := SNone | SPlus | SMinus.
Definition sign_chars (s : sign_) : list ascii := match s with SNone => [] | SPlus => ["+"%char] | SMinus => ["-"%char] end.
Definition sign_val (s : sign_) : Z := match s with SMinus => -1 | _ => 1 end.
Definition digits_val (ds : list Z) : Z := fold_left (fun a d => a * 10 + d) ds 0.
(* a spelt part: optional sign, digits (most significant first), unit letter *)
Definition spell (p : sign_ * list Z * unit_) : list ascii :=
  let '(s, ds, u) := p in sign_chars s ++ map digit_char ds ++ [letter u].
Definition meaning (p : sign_ * list Z * unit_) : Z * unit_ :=
  let '(s, ds, u) := p in (sign_val s * digits_val ds, u).
Definition well_formed (p : sign_ * list Z * unit_) : Prop :=
  let '(s, ds, u) := p in ds <> [] /\ Forall (fun d => 0 <= d <= 9) ds.
