(* Model of container lifting in pyg_base: loops._wrapped / _item_by_i / _item_by_key (_loop.py)
   for loop(list, tuple, dict), zipper / lens (_zip.py), as_list / as_tuple (_as_list.py) and
   the bookkeeping of waiter (_waiter.py).  Leaves are opaque (an integer id); the lifted
   function is a parameter.  Definitions only.  Companions are handed down as a tuple
   (the repaired code, fixes/C19.patch), not as a one-shot generator. *)
From Coq Require Import ZArith List Bool Arith.
Import ListNotations.

(* nested Python values: leaf | list | tuple | dict (class tag: 0 dict, 1 OrderedDict, 2 Dict, 3 dictattr) *)
Inductive val :=
| VLeaf (z : Z)
| VList (l : list val)
| VTuple (l : list val)
| VDict (c : Z) (items : list (Z * val)).
Definition none_leaf : val := VLeaf (-1)%Z.       (* Python None *)

Definition mapi_from {A B} (g : nat -> A -> B) : nat -> list A -> list B :=
  fix go (i : nat) (l : list A) : list B :=
    match l with [] => [] | x :: l' => g i x :: go (S i) l' end.

Fixpoint zinsert (x : Z) (l : list Z) : list Z :=
  match l with [] => [x] | y :: l' => if (x <=? y)%Z then x :: l else y :: zinsert x l' end.
Definition sortZ (l : list Z) : list Z := fold_right zinsert [] l.      (* sorted(d.keys()) *)
Fixpoint list_eqb (a b : list Z) : bool :=
  match a, b with
  | [], [] => true
  | x :: a', y :: b' => (x =? y)%Z && list_eqb a' b'
  | _, _ => false
  end.
Fixpoint lookup_opt (k : Z) (items : list (Z * val)) : option val :=
  match items with [] => None | kv :: r => if (fst kv =? k)%Z then Some (snd kv) else lookup_opt k r end.
Definition lookup (k : Z) (items : list (Z * val)) : val :=
  match lookup_opt k items with Some v => v | None => VLeaf 0 end.

(* _item_by_i(value, i, n): a list/tuple of length n gives its i-th element; any other list/tuple
   is searched recursively; everything else is returned whole *)
Fixpoint item_by_i (v : val) (i n : nat) : val :=
  match v with
  | VList l => if length l =? n then nth i l (VLeaf 0) else VList (map (fun x => item_by_i x i n) l)
  | VTuple l => if length l =? n then nth i l (VLeaf 0) else VTuple (map (fun x => item_by_i x i n) l)
  | _ => v
  end.
(* _item_by_key(value, key, keys) with i=None: a dict with exactly these keys gives value[key]; any
   other dict is searched recursively through its values; everything else is returned whole *)
Fixpoint item_by_key (v : val) (key : Z) (keys : list Z) : val :=
  match v with
  | VDict c items =>
      if list_eqb (sortZ (map fst items)) keys then lookup key items
      else VDict c (map (fun kv => (fst kv, item_by_key (snd kv) key keys)) items)
  | _ => v
  end.

Definition kwargs := list (Z * val).                       (* keyword name -> companion *)
Definition map_kw (h : val -> val) (kw : kwargs) : kwargs := map (fun nv => (fst nv, h (snd nv))) kw.
Definition leaf_fun := val -> list val -> kwargs -> val.   (* self.function(arg, *args, **kwargs) *)

(* loops._wrapped(arg, args, kwargs) with types = (list, tuple, dict + dict subclasses) *)
Fixpoint wrapped (f : leaf_fun) (arg : val) (pos : list val) (kw : kwargs) {struct arg} : val :=
  match arg with
  | VDict c items =>
      let keys := sortZ (map fst items) in
      VDict c (map (fun kv => (fst kv, wrapped f (snd kv) (map (fun a => item_by_key a (fst kv) keys) pos)
                                               (map_kw (fun a => item_by_key a (fst kv) keys) kw))) items)
  | VList l =>
      let n := length l in
      VList (mapi_from (fun i x => wrapped f x (map (fun a => item_by_i a i n) pos) (map_kw (fun a => item_by_i a i n) kw)) 0 l)
  | VTuple l =>
      let n := length l in
      VTuple (mapi_from (fun i x => wrapped f x (map (fun a => item_by_i a i n) pos) (map_kw (fun a => item_by_i a i n) kw)) 0 l)
  | VLeaf _ => f arg pos kw
  end.

(* ---- specification vocabulary: paths, the companion seen at a path *)
Inductive step := SI (i : nat) | SK (k : Z).
Definition child (v : val) (s : step) : option val :=
  match v, s with
  | VList l, SI i => nth_error l i
  | VTuple l, SI i => nth_error l i
  | VDict _ items, SK k => lookup_opt k items
  | _, _ => None
  end.
(* what becomes of companion a when the lifted call descends from container v by step s *)
Definition select (v : val) (s : step) (a : val) : val :=
  match v, s with
  | VList l, SI i => item_by_i a i (length l)
  | VTuple l, SI i => item_by_i a i (length l)
  | VDict _ items, SK k => item_by_key a k (sortZ (map fst items))
  | _, _ => a
  end.
Fixpoint get (v : val) (p : list step) : option val :=
  match p with
  | [] => Some v
  | s :: p' => match child v s with Some c => get c p' | None => None end
  end.
Fixpoint comp_at (v : val) (p : list step) (a : val) : val :=
  match p with
  | [] => a
  | s :: p' => match child v s with Some c => comp_at c p' (select v s a) | None => a end
  end.
(* same container skeleton and container types; leaves of the argument may become anything *)
Inductive shaped : val -> val -> Prop :=
| sh_leaf z r : shaped (VLeaf z) r
| sh_list l l' : Forall2 shaped l l' -> shaped (VList l) (VList l')
| sh_tuple l l' : Forall2 shaped l l' -> shaped (VTuple l) (VTuple l')
| sh_dict c items items' : map fst items = map fst items' ->
    Forall2 shaped (map snd items) (map snd items') -> shaped (VDict c items) (VDict c items').
(* companion a has, all along path p, the same length / keys as the lifted argument *)
Definition same_len (v a : val) : bool :=
  match v, a with
  | (VList l | VTuple l), (VList l' | VTuple l') => length l' =? length l
  | VDict _ items, VDict _ items' => list_eqb (sortZ (map fst items')) (sortZ (map fst items))
  | _, _ => false
  end.
Fixpoint follows (v a : val) (p : list step) : Prop :=
  match p with
  | [] => True
  | s :: p' => match child v s, child a s with
               | Some c, Some ca => same_len v a = true /\ follows c ca p'
               | _, _ => False
               end
  end.
(* a companion with no sub-container of the matching length (resp. keys) *)
Fixpoint plain_i (n : nat) (v : val) : bool :=
  match v with
  | VList l => negb (length l =? n) && forallb (plain_i n) l
  | VTuple l => negb (length l =? n) && forallb (plain_i n) l
  | _ => true
  end.
Fixpoint plain_k (keys : list Z) (v : val) : bool :=
  match v with
  | VDict _ items => negb (list_eqb (sortZ (map fst items)) keys) && forallb (fun kv => plain_k keys (snd kv)) items
  | _ => true
  end.
(* a function of named parameters called positionally and/or by keyword *)
Definition f_named (g : val -> kwargs -> val) (names : list Z) : leaf_fun :=
  fun x pos kw => g x (combine names pos ++ kw).

(* ---- zipper and lens.  elems: a list/tuple is iterated, anything else is wrapped as [value] *)
Definition elems (v : val) : list val :=
  match v with VList l => l | VTuple l => l | _ => [v] end.
Fixpoint nodup_nat (l : list nat) : list nat :=
  match l with [] => [] | x :: l' => if existsb (Nat.eqb x) l' then nodup_nat l' else x :: nodup_nat l' end.
(* lens: None = ValueError *)
Definition lens (ls : list (list val)) : option nat :=
  match ls with
  | [] => Some 0
  | _ => match nodup_nat (filter (fun n => negb (n =? 1)) (map (@length val) ls)) with
         | [] => Some 1
         | [n] => Some n
         | _ => None
         end
  end.
Definition min_len (ls : list (list val)) : nat :=
  match ls with [] => 0 | l :: r => fold_left Nat.min (map (@length val) r) (length l) end.
(* zip: rows 0 .. shortest-1 *)
Definition zip_rows (ls : list (list val)) : list (list val) :=
  map (fun j => map (fun l => nth j l (VLeaf 0)) ls) (seq 0 (min_len ls)).
Definition zipper (vs : list val) : option (list (list val)) :=
  let ls := map elems vs in
  match lens ls with
  | None => None
  | Some n =>
      let ls' := if 1 <? n then map (fun l => if length l =? 1 then concat (repeat l n) else l) ls else ls in
      Some (zip_rows ls')
  end.

(* ---- as_list / as_tuple *)
Definition is_list (v : val) : bool := match v with VList _ => true | _ => false end.
Definition is_none (v : val) : bool := match v with VLeaf z => (z =? -1)%Z | _ => false end.
Definition as_list (v : val) : val :=
  if is_none v then VList [] else
  match v with
  | VList l => v
  | VTuple [VList l] => VList l
  | VTuple l => VList l
  | _ => VList [v]
  end.
Definition as_tuple (v : val) : val :=
  if is_none v then VTuple [] else
  match v with
  | VTuple [VList l] => VTuple l
  | VTuple l => v
  | VList l => VTuple l
  | _ => VTuple [v]
  end.

(* ---- waiter: a structure with awaitables (numbered futures); asyncio is a state machine whose
   state is the set of completed futures with their results; gather collects by position *)
Inductive wval :=
| WLeaf (z : Z)
| WAwait (i : nat)
| WList (l : list wval)
| WTuple (l : list wval)
| WDict (c : Z) (items : list (Z * wval)).
Definition wstate := list (nat * val).
Fixpoint done_opt (i : nat) (st : wstate) : option val :=
  match st with [] => None | e :: r => if fst e =? i then Some (snd e) else done_opt i r end.
(* a future's result is set once *)
Definition complete (st : wstate) (e : nat * val) : wstate :=
  match done_opt (fst e) st with Some _ => st | None => e :: st end.
Definition run_schedule (sched : list (nat * val)) : wstate := fold_left complete sched [].
Fixpoint all_some {A} (l : list (option A)) : option (list A) :=
  match l with
  | [] => Some []
  | Some x :: r => match all_some r with Some xs => Some (x :: xs) | None => None end
  | None :: _ => None
  end.
(* the value waiter returns in state st; None = still pending *)
Fixpoint collect (st : wstate) (w : wval) : option val :=
  match w with
  | WLeaf z => Some (VLeaf z)
  | WAwait i => done_opt i st
  | WList l => option_map VList (all_some (map (collect st) l))
  | WTuple l => option_map VTuple (all_some (map (collect st) l))
  | WDict c items =>
      option_map (fun vs => VDict c (combine (map fst items) vs)) (all_some (map (fun kv => collect st (snd kv)) items))
  end.
(* the specification: every awaitable replaced by its result *)
Fixpoint subst (res : nat -> val) (w : wval) : val :=
  match w with
  | WLeaf z => VLeaf z
  | WAwait i => res i
  | WList l => VList (map (subst res) l)
  | WTuple l => VTuple (map (subst res) l)
  | WDict c items => VDict c (map (fun kv => (fst kv, subst res (snd kv))) items)
  end.
Fixpoint awaits (w : wval) : list nat :=
  match w with
  | WLeaf _ => []
  | WAwait i => [i]
  | WList l => flat_map awaits l
  | WTuple l => flat_map awaits l
  | WDict _ items => flat_map (fun kv => awaits (snd kv)) items
  end.
