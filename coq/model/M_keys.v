(* C16 — executable model of pyg_base ulist (_ulist.py), dictattr (_dictattr.py) key algebra
   and Dict.__call__ (_dict.py).  Definitions only; proofs are in proofs/P_keys.v. *)
From Coq Require Import List Bool Ascii String Arith ZArith.
Import ListNotations.

(* ------------------------------------------------------------------ ulist *)
Section Ulist.
  Context {A : Type}.
  Variable eqb : A -> A -> bool.          (* Python == on hashables: 1 == 1.0 == True *)

  Definition mem (x : A) (l : list A) : bool := existsb (eqb x) l.

  (* spec: keep the first occurrence of every ==-class, in order of first occurrence *)
  Fixpoint dedup (l : list A) : list A :=
    match l with
    | [] => []
    | x :: l' => x :: filter (fun y => negb (eqb x y)) (dedup l')
    end.

  (* list.index : position of the first element == x *)
  Fixpoint index (x : A) (l : list A) : nat :=
    match l with
    | [] => 0
    | y :: l' => if eqb x y then 0 else S (index x l')
    end.

  (* sorted(...) of (index, element) pairs; indices are distinct so elements are never compared *)
  Fixpoint insert (p : nat * A) (l : list (nat * A)) : list (nat * A) :=
    match l with
    | [] => [p]
    | q :: l' => if fst p <=? fst q then p :: q :: l' else q :: insert p l'
    end.
  Fixpoint isort (l : list (nat * A)) : list (nat * A) :=
    match l with [] => [] | p :: l' => insert p (isort l') end.

  (* ulist.__init__(orig), unique = False:
       [v for _, v in sorted([(orig.index(u), u) for u in set(orig)])]
     [s] is the iteration order of set(orig): one representative (the first inserted) per class,
     in hash order, i.e. some permutation of [dedup orig] *)
  Definition ulist_init_with (s orig : list A) : list A :=
    map snd (isort (map (fun u => (index u orig, u)) s)).
  (* the executable model fixes one (deliberately non-trivial) iteration order for the set *)
  Definition pyset (orig : list A) : list A := rev (dedup orig).
  Definition mk (orig : list A) : list A := ulist_init_with (pyset orig) orig.

  Inductive other := OElem (x : A) | OList (l : list A).

  (* __add__ / __or__ *)
  Definition ul_add (u : list A) (o : other) : list A :=
    match o with
    | OList x => mk (u ++ x)
    | OElem x => if mem x u then u else mk (u ++ [x])
    end.
  (* __and__ : note the element form returns [other] itself *)
  Definition ul_and (u : list A) (o : other) : list A :=
    match o with
    | OList x => mk (filter (fun e => mem e x) u)
    | OElem x => if mem x u then [x] else mk []
    end.
  (* __sub__ *)
  Definition ul_sub (u : list A) (o : other) : list A :=
    match o with
    | OList x => mk (filter (fun e => negb (mem e x)) u)
    | OElem x => if negb (mem x u) then u else mk (filter (fun e => negb (mem e [x])) u)
    end.

  (* specification: ordered union / difference / intersection of a duplicate-free list with a list *)
  Definition ounion (u x : list A) : list A := u ++ filter (fun y => negb (mem y u)) (dedup x).
  Definition odiff (u x : list A) : list A := filter (fun y => negb (mem y x)) u.
  Definition ointer (u x : list A) : list A := filter (fun y => mem y x) u.
  Definition other_list (o : other) : list A := match o with OElem x => [x] | OList l => l end.

  Inductive NoDupE : list A -> Prop :=
  | NDE_nil : NoDupE []
  | NDE_cons x l : mem x l = false -> NoDupE l -> NoDupE (x :: l).
End Ulist.
Arguments other A : clear implicits.
Arguments OElem {A} x.
Arguments OList {A} l.

(* ------------------------------------------------------------------ ordered mappings with string keys *)
Section AMap.
  Context {V : Type}.
  Definition amap := list (string * V).

  Fixpoint aget (k : string) (m : amap) : option V :=
    match m with
    | [] => None
    | (k', v) :: m' => if String.eqb k k' then Some v else aget k m'
    end.
  Definition ahas (k : string) (m : amap) : bool := existsb (fun kv => String.eqb k (fst kv)) m.
  (* d[k] = v : in place when present (position kept), appended otherwise *)
  Fixpoint aset (k : string) (v : V) (m : amap) : amap :=
    match m with
    | [] => [(k, v)]
    | (k', v') :: m' => if String.eqb k k' then (k', v) :: m' else (k', v') :: aset k v m'
    end.
  Definition adel (k : string) (m : amap) : amap := filter (fun kv => negb (String.eqb k (fst kv))) m.
  Definition akeys (m : amap) : list string := map fst m.
  Definition aupdate (m o : amap) : amap := fold_left (fun m kv => aset (fst kv) (snd kv) m) o m.
  (* dict of a comprehension {k: v for ...} / a dict comprehension over a sequence of pairs *)
  Definition of_items (l : list (string * V)) : amap := aupdate [] l.
  (* {**d, **o} *)
  Definition merged (d o : amap) : amap := aupdate d o.
End AMap.
Arguments amap V : clear implicits.

(* class tags: dict, dictattr, Dict, a user subclass of dictattr, a user subclass of Dict *)
(* CPoint: a subclass of Dict, CKwInit: a subclass of dictattr, each with its own __init__ signature *)
Inductive cls := CPlain | CDictattr | CDict | CUserA | CUserD | CPoint | CKwInit.
Definition is_Dict (c : cls) : bool := match c with CDict | CUserD | CPoint => true | _ => false end.
(* tree_items / items_to_tree recognise a branch by exact type: type(tree) in (dict, Dict, dictattr) *)
Definition is_tree_type (c : cls) : bool := match c with CPlain | CDictattr | CDict => true | _ => false end.

Inductive dres (V : Type) :=
| DObj (c : cls) (m : amap V)     (* a mapping of class c *)
| DVals (l : list V)               (* a plain list of values *)
| DKeys (l : list string)          (* a ulist of keys *)
| DErr (e : string).
Arguments DObj {V} c m.
Arguments DVals {V} l.
Arguments DKeys {V} l.
Arguments DErr {V} e.

Inductive relabel_arg :=
| RNone                                 (* no positional argument *)
| RAffix (s : string)                   (* one string: '_x' suffix, 'x_' prefix, anything else ignored *)
| RNames (l : list string)              (* a list of new names (or several positional strings) *)
| RDouble                               (* a callable: lambda k: k * 2 *)
| RUpper                                (* a callable: str.upper *)
| RDict (l : list (string * string)).   (* a dict old -> new *)

Definition starts_us (s : string) : bool := match s with String c _ => Ascii.eqb c "_"%char | EmptyString => false end.
Fixpoint ends_us (s : string) : bool :=
  match s with
  | EmptyString => false
  | String c EmptyString => Ascii.eqb c "_"%char
  | String _ s' => ends_us s'
  end.

Definition upper_ascii (c : ascii) : ascii :=
  let n := nat_of_ascii c in if (97 <=? n) && (n <=? 122) then ascii_of_nat (n - 32) else c.
Fixpoint upper (s : string) : string := match s with EmptyString => EmptyString | String c s' => String (upper_ascii c) (upper s') end.

Section DictAttr.
  Context {V : Type}.

  (* __sub__: a single key or a list of keys (applied one after the other on the copy) *)
  Definition d_sub (c : cls) (d : amap V) (ks : list string) : dres V :=
    DObj c (fold_left (fun m k => adel k m) ks d).
  (* __and__: type(self) of {k: v for k, v in self.items() if k in set(self.keys()) & set(as_list(other))} *)
  Definition d_and (c : cls) (d : amap V) (ks : list string) : dres V :=
    DObj c (of_items (filter (fun kv => ahas (fst kv) d && existsb (String.eqb (fst kv)) ks) d)).
  (* self[k] for each k, KeyError at the first absent key *)
  Fixpoint getmany (d : amap V) (ks : list string) : option (list (string * V)) :=
    match ks with
    | [] => Some []
    | k :: ks' => match aget k d with
                  | None => None
                  | Some v => match getmany d ks' with Some r => Some ((k, v) :: r) | None => None end
                  end
    end.
  (* d[[k1, k2, ...]] *)
  Definition d_getlist (c : cls) (d : amap V) (ks : list string) : dres V :=
    match getmany d ks with Some r => DObj c (of_items r) | None => DErr "KeyError" end.
  (* d[k1, k2, ...] *)
  Definition d_gettuple (d : amap V) (ks : list string) : dres V :=
    match getmany d ks with Some r => DVals (map snd r) | None => DErr "KeyError" end.
  (* d.k *)
  Definition d_attr (d : amap V) (k : string) : dres V :=
    match aget k d with Some v => DVals [v] | None => DErr "AttributeError" end.
  (* __add__: dictattr = copy + update; Dict = tree_update(self, other), which for leaf values sets
     every item of other on the copy, and raises ValueError('node item too short') when other itself
     is not of a recognised branch type *)
  Definition d_add (c : cls) (d : amap V) (oc : cls) (o : amap V) : dres V :=
    if is_Dict c && negb (is_tree_type oc) then DErr "ValueError" else DObj c (aupdate d o).
  (* __or__: type(self)(dict.__or__(self, other)) *)
  Definition d_or (c : cls) (d : amap V) (o : amap V) : dres V := DObj c (aupdate d o).
  (* keys() *)
  Definition d_keys (d : amap V) : dres V := DKeys (akeys d).

  Definition affix_map (keys : list string) (s : string) : amap string :=
    if starts_us s then of_items (map (fun k => (k, (k ++ s)%string)) keys)
    else if ends_us s then of_items (map (fun k => (k, (s ++ k)%string)) keys)
    else [].
  (* relabel(keys, *args, **relabels) -> mapping old -> new *)
  Definition relabel_map (keys : list string) (a : relabel_arg) (kw : list (string * string)) : amap string :=
    let base : amap string :=
      match a with
      | RNone => []
      | RAffix s => affix_map keys s
      | RNames [s] => affix_map keys s          (* a single positional string is an affix, never a name *)
      | RNames l => if Nat.eqb (List.length l) (List.length keys) then of_items (combine keys l) else []
      | RDouble => of_items (map (fun k => (k, (k ++ k)%string)) keys)
      | RUpper => of_items (map (fun k => (k, upper k)) keys)
      | RDict l => aupdate [] l
      end in
    aupdate base kw.
  Definition d_relabel (c : cls) (d : amap V) (a : relabel_arg) (kw : list (string * string)) : dres V :=
    let r := relabel_map (akeys d) a kw in
    DObj c (of_items (map (fun kv => (match aget (fst kv) r with Some n => n | None => fst kv end, snd kv)) d)).
End DictAttr.

(* ------------------------------------------------------------------ the Python entry points of the operators that build their
   result through type(self)(...): for a subclass with its own __init__ signature the constructor is RE-RUN on the result
   (CPoint: __init__(self, x = 0, y = 0, kw...), CKwInit: __init__(self, *, name = 'n', kw...)) *)
Definition own_init (c : cls) : bool := match c with CPoint | CKwInit => true | _ => false end.
Definition init_params (c : cls) : list string := match c with CPoint => ["x"%string; "y"%string] | CKwInit => ["name"%string] | _ => [] end.
Section Rebuild.
  Context {V : Type}.
  Variable init_default : string -> V.      (* the default of a constructor parameter *)
  Variable as_value : amap V -> V.          (* a whole mapping landing in the first positional parameter *)
  (* type(self)(keyword items): constructor parameters first (given or defaulted), then the other items *)
  Definition rerun_kw (c : cls) (r : dres V) : dres V :=
    match r with
    | DObj c' m =>
        if own_init c
        then DObj c' (map (fun p => (p, match aget p m with Some v => v | None => init_default p end)) (init_params c)
                      ++ filter (fun kv => negb (existsb (String.eqb (fst kv)) (init_params c))) m)
        else r
    | _ => r
    end.
  (* type(self)(a dict, positionally) *)
  Definition rerun_pos (c : cls) (r : dres V) : dres V :=
    match r with
    | DObj c' m => match c with
                   | CPoint => DObj c' [("x"%string, as_value m); ("y"%string, init_default "y"%string)]
                   | CKwInit => DErr "TypeError"
                   | _ => r
                   end
    | _ => r
    end.
  (* since /repo 1b2f78e all four pass the result dict POSITIONALLY (rerun_kw: the earlier keyword rebuild, kept for reference) *)
  Definition d_and_py (c : cls) (d : amap V) (ks : list string) : dres V := rerun_pos c (d_and c d ks).
  Definition d_relabel_py (c : cls) (d : amap V) (a : relabel_arg) (kw : list (string * string)) : dres V := rerun_pos c (d_relabel c d a kw).
  Definition d_getlist_py (c : cls) (d : amap V) (ks : list string) : dres V := rerun_pos c (d_getlist c d ks).
  Definition d_or_py (c : cls) (d : amap V) (o : amap V) : dres V := rerun_pos c (d_or c d o).
End Rebuild.

(* ------------------------------------------------------------------ a small heap: operations write only to a fresh copy *)
Section Heap.
  Context {V : Type}.
  Definition heap := list (amap V).
  Definition hget (h : heap) (i : nat) : amap V := nth i h [].
  Fixpoint hput (h : heap) (i : nat) (m : amap V) : heap :=
    match h, i with
    | [], _ => []
    | _ :: h', 0 => m :: h'
    | x :: h', S i' => x :: hput h' i' m
    end.
  (* res = self.copy() *)
  Definition hcopy (h : heap) (i : nat) : heap * nat := (h ++ [hget h i], List.length h).
  (* del res[k] if k in res — in place *)
  Definition h_del (h : heap) (j : nat) (k : string) : heap := hput h j (adel k (hget h j)).
  (* res[k] = v — in place *)
  Definition h_set (h : heap) (j : nat) (k : string) (v : V) : heap := hput h j (aset k v (hget h j)).
  (* dictattr.__sub__(self, keys): copy, then res.__sub__(k, copy = False) for each k *)
  Definition h_sub (h : heap) (i : nat) (ks : list string) : heap * nat :=
    let '(h1, j) := hcopy h i in (fold_left (fun h k => h_del h j k) ks h1, j).
  (* dictattr.__add__(self, other): copy, then res.update(other) *)
  Definition h_add (h : heap) (i o : nat) : heap * nat :=
    let '(h1, j) := hcopy h i in (fold_left (fun h kv => h_set h j (fst kv) (snd kv)) (hget h o) h1, j).
End Heap.

(* ------------------------------------------------------------------ Dict.__call__ *)
Section DictCall.
  Context {V : Type}.
  Variable inj : string -> V.       (* how a key name is passed as the value of the 'key' parameter *)

  (* a callable: its parameters in order (positional or keyword-only alike: every argument is passed by keyword), each
     with its default if it has one, and its body as a function of the values bound to them *)
  Inductive item := IConst (v : V) | IFun (params : list (string * option V)) (fn : list V -> V).
  Definition fdef := (string * (list (string * option V) * (list V -> V)))%type.

  (* the value bound to parameter d when evaluating key k: res[d], else the default {'key': k} *)
  Definition arg (res : amap V) (k : string) (p : string * option V) : option V :=
    match aget (fst p) res with
    | Some v => Some v
    | None => if String.eqb (fst p) "key" then Some (inj k) else snd p      (* its own default, if any *)
    end.
  Fixpoint args (res : amap V) (k : string) (ds : list (string * option V)) : option (list V) :=
    match ds with
    | [] => Some []
    | d :: ds' => match arg res k d, args res k ds' with
                  | Some v, Some vs => Some (v :: vs)
                  | _, _ => None
                  end
    end.
  (* res[key] = res.apply(value, key = key).  apply hands ALL entries of res as keywords to
     kwargs_support(function).__call__(self, ...): an entry literally named self collides with the method's own
     self parameter and the call raises TypeError, whatever the callable declares *)
  Definition eval1 (res : amap V) (kc : fdef) : option (amap V) :=
    match aget "self" res with
    | Some _ => None
    | None =>
        match args res (fst kc) (fst (snd kc)) with
        | Some vs => Some (aset (fst kc) (snd (snd kc) vs) res)
        | None => None
        end
    end.
  Fixpoint eval_seq (res : amap V) (l : list fdef) : option (amap V) :=
    match l with
    | [] => Some res
    | kc :: l' => match eval1 res kc with Some r => eval_seq r l' | None => None end
    end.

  Inductive cres := COk (r : amap V) | CErr (e : string).

  Definition skeys (cs : list fdef) : list string := map fst cs.
  Definition inl (k : string) (l : list string) : bool := existsb (String.eqb k) l.
  (* len(keys & set(getargs(value))) == 0 *)
  Definition independent (keys : list string) (kc : fdef) : bool :=
    negb (existsb (fun d => inl d keys) (map fst (fst (snd kc)))).       (* getargs: ALL parameter names, defaulted or not *)

  (* while len(callables) > 1: ... ; then the (at most one) remaining callable *)
  Fixpoint call_loop (fuel : nat) (cs : list fdef) (res : amap V) : cres :=
    if List.length cs <=? 1 then
      match eval_seq res cs with Some r => COk r | None => CErr "TypeError" end
    else
      match fuel with
      | 0 => CErr "fuel"
      | S f =>
          let ind := filter (independent (skeys cs)) cs in
          match ind with
          | [] => CErr "ValueError"
          | _ => match eval_seq res ind with
                 | None => CErr "TypeError"
                 | Some r => call_loop f (filter (fun kc => negb (inl (fst kc) (skeys ind))) cs) r
                 end
          end
      end.

  Definition consts (kw : list (string * item)) : list (string * V) :=
    flat_map (fun kv => match snd kv with IConst v => [(fst kv, v)] | IFun _ _ => [] end) kw.
  Definition funs (kw : list (string * item)) : list fdef :=
    flat_map (fun kv => match snd kv with IFun ds fn => [(fst kv, (ds, fn))] | IConst _ => [] end) kw.

  (* Dict.__call__(self, **kwargs): a keyword named self cannot be bound (TypeError before anything is evaluated) *)
  Definition dict_call (base : amap V) (kw : list (string * item)) : cres :=
    if inl "self" (map fst kw) then CErr "TypeError"
    else call_loop (List.length (funs kw)) (funs kw) (aupdate base (consts kw)).
End DictCall.
Arguments IConst {V} v.
Arguments IFun {V} params fn.
Arguments COk {V} r.
Arguments CErr {V} e.

(* ------------------------------------------------------------------ concrete hashables for the correspondence *)
Local Open Scope Z_scope.
(* hashable Python values used as ulist elements *)
(* HOther t: the t-th of a fixed list of further hashables, each equal only to itself (inf, -inf, 0.5, bytes, frozenset, ...) *)
Inductive hv := HInt (z : Z) | HFloat (z : Z) | HBool (b : bool) | HStr (s : string) | HNone | HTup (l : list hv) | HOther (t : Z).

(* code a = code b  iff  a == b in Python (1 == 1.0 == True; tuples element-wise) *)
Fixpoint code (h : hv) : list Z :=
  match h with
  | HInt z => [0; z]
  | HFloat z => [0; z]
  | HBool b => [0; if b then 1 else 0]
  | HStr s => 1 :: Z.of_nat (String.length s) :: map (fun c => Z.of_nat (nat_of_ascii c)) (list_ascii_of_string s)
  | HNone => [2]
  | HTup l => 3 :: Z.of_nat (List.length l) :: flat_map code l
  | HOther t => [4; t]
  end.
Fixpoint lz_eqb (a b : list Z) : bool :=
  match a, b with
  | [], [] => true
  | x :: a', y :: b' => Z.eqb x y && lz_eqb a' b'
  | _, _ => false
  end.
Definition hv_eqb (a b : hv) : bool := lz_eqb (code a) (code b).


(* ------------------------------------------------------------------ Dict + other on nested mappings (tree_update): used by the
   correspondence for the "operands unchanged" clause on mappings whose values are themselves mappings (the merge law is C15's) *)
Inductive tr := TLeaf (z : Z) | TNode (c : cls) (kids : list (string * tr)).
(* tree_items: a value is a branch iff its EXACT type is dict / Dict / dictattr; anything else is a leaf *)
Fixpoint titems (t : tr) : list (list string * tr) :=
  match t with
  | TNode c kids =>
      if is_tree_type c
      then (fix go (kids : list (string * tr)) : list (list string * tr) :=
              match kids with
              | [] => []
              | (k, t') :: r => map (fun pv => (k :: fst pv, snd pv)) (titems t') ++ go r
              end) kids
      else [([], t)]
  | TLeaf _ => [([], t)]
  end.
(* _tree_setitem on a copy: existing mappings on the path (isinstance dict: any class) are descended into, anything else
   is replaced by a fresh base() *)
Fixpoint tset (base : cls) (p : list string) (v : tr) (kids : list (string * tr)) : list (string * tr) :=
  match p with
  | [] => kids
  | k :: p' =>
      match p' with
      | [] => aset k v kids
      | _ => match aget k kids with
             | Some (TNode c sub) => aset k (TNode c (tset base p' v sub)) kids
             | _ => aset k (TNode base (tset base p' v [])) kids
             end
      end
  end.
Inductive tres := TOk (t : tr) | TErr (e : string).
Definition tree_add (d other : tr) : tres :=
  match d with
  | TLeaf _ => TErr "TypeError"
  | TNode c kids =>
      match other with
      | TNode oc _ =>
          if is_tree_type oc
          then TOk (TNode c (fold_left (fun acc pv => tset c (fst pv) (snd pv) acc) (titems other) kids))
          else TErr "ValueError"          (* other itself is taken for a leaf: node item too short *)
      | TLeaf _ => TErr "ValueError"
      end
  end.
