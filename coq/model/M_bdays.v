(* Model of pyg_base._drange.Calendar (business-day arithmetic) at day granularity and of the
   registry function calendar(key, ...).  Dates are proleptic-Gregorian ordinals (Z, as in M_cal).
   Definitions only: no proofs here.

   A calendar is  hol : Z -> bool   (date is in self.holidays)
                  wk  : Z -> bool   (weekday number 0..6 is in self.weekend)
                  t0 t1 : Z         (self.t0, self.t1)
   and `month : Z -> Z` is datetime.month.  In this file they are Section variables: every
   definition (and every theorem of P_bdays.v) is for ARBITRARY hol / wk / month; the execution
   instance (list-backed hol and wk, M_cal month) is at the end of the file. *)
From Coq Require Import ZArith List Bool.
From PB Require Import model.M_cal.
Import ListNotations.
Open Scope Z_scope.

(* outcome of a Calendar method: value, KeyError (dt2int / int2dt lookup outside the table),
   or the loop did not finish within the fuel (the Python loop is unbounded) *)
Inductive res (A : Type) := Ok (a : A) | KeyError | OutOfFuel.
Arguments Ok {A} a. Arguments KeyError {A}. Arguments OutOfFuel {A}.

Inductive adjk := AdjF | AdjP | AdjM.

(* ---- list helpers ---- *)
(* [a; a+1; ...; a+n-1] *)
Fixpoint rng (a : Z) (n : nat) : list Z := match n with O => [] | S k => a :: rng (a + 1) k end.
(* dict(zip(bdays, range(len(bdays)))): position of x *)
Fixpoint index_of (x : Z) (l : list Z) : option nat :=
  match l with
  | [] => None
  | y :: l' => if y =? x then Some O else match index_of x l' with Some i => Some (S i) | None => None end
  end.
(* dict(zip(range(len(bdays)), bdays)): KeyError for a negative or too large key (no list wrap-around) *)
Definition znth (l : list Z) (i : Z) : option Z := if i <? 0 then None else nth_error l (Z.to_nat i).
(* [T[i] for i in is], KeyError as soon as one lookup fails *)
Fixpoint lookup_all (T : list Z) (is : list Z) : res (list Z) :=
  match is with
  | [] => Ok []
  | i :: r => match znth T i with
              | None => KeyError
              | Some x => match lookup_all T r with Ok l => Ok (x :: l) | e => e end
              end
  end.
(* SPEC: day-by-day count of the days d in [a, b) with P d *)
Definition cnt (P : Z -> bool) (a b : Z) : Z := Z.of_nat (length (filter P (rng a (Z.to_nat (b - a))))).

Section Cal.
Variable hol : Z -> bool.
Variable wk : Z -> bool.
Variable month : Z -> Z.
Variables t0 t1 : Z.

Definition weekend (d : Z) : bool := wk (weekday_ord d).
(* is_holiday: date.weekday() in self.weekend or ymd(date) in self.holidays *)
Definition is_holiday (d : Z) : bool := weekend d || hol d.
(* is_bday: date.weekday() not in self.weekend and ymd(date) not in self.holidays *)
Definition is_bday (d : Z) : bool := negb (weekend d) && negb (hol d).

(* adjust 'f':  while self.is_holiday(t) and t <= self.t1: t = t + DAY *)
Fixpoint adj_f1 (fuel : nat) (t : Z) : option Z :=
  match fuel with O => None | S k => if is_holiday t && (t <=? t1) then adj_f1 k (t + 1) else Some t end.
(*              while t > self.t1 and t.weekday() in self.weekend: t = t + DAY *)
Fixpoint adj_f2 (fuel : nat) (t : Z) : option Z :=
  match fuel with O => None | S k => if (t1 <? t) && weekend t then adj_f2 k (t + 1) else Some t end.
Definition adjust_f (fuel : nat) (t : Z) : option Z :=
  match adj_f1 fuel t with Some t' => adj_f2 fuel t' | None => None end.
(* adjust 'p' *)
Fixpoint adj_p1 (fuel : nat) (t : Z) : option Z :=
  match fuel with O => None | S k => if is_holiday t && (t0 <=? t) then adj_p1 k (t - 1) else Some t end.
Fixpoint adj_p2 (fuel : nat) (t : Z) : option Z :=
  match fuel with O => None | S k => if (t <? t0) && weekend t then adj_p2 k (t - 1) else Some t end.
Definition adjust_p (fuel : nat) (t : Z) : option Z :=
  match adj_p1 fuel t with Some t' => adj_p2 fuel t' | None => None end.
(* adjust 'm': t = self.adjust(date,'f'); if t.month != date.month: return self.adjust(date,'p') else t *)
Definition adjust_m (fuel : nat) (t : Z) : option Z :=
  match adjust_f fuel t with
  | Some r => if negb (month r =? month t) then adjust_p fuel t else Some r
  | None => None
  end.
Definition adjust (fuel : nat) (a : adjk) (t : Z) : option Z :=
  match a with AdjF => adjust_f fuel t | AdjP => adjust_p fuel t | AdjM => adjust_m fuel t end.

(* _populate: bdays = [date for date in t0..t1 (daily) if is_bday date]; dt2int / int2dt *)
Definition populate : list Z := filter is_bday (rng t0 (Z.to_nat (t1 - t0 + 1))).
Definition dt2int (T : list Z) (x : Z) : option Z := option_map Z.of_nat (index_of x T).
Definition int2dt (T : list Z) (i : Z) : option Z := znth T i.

(* add, |days| <= 1:  res = t + increment; while self.is_holiday(res): res = res + increment *)
Fixpoint add_loop (fuel : nat) (n res : Z) : option Z :=
  match fuel with O => None | S k => if is_holiday res then add_loop k n (res + n) else Some res end.
Definition add_uses_table (n : Z) : bool := 1 <? Z.abs n.
Definition add (T : list Z) (fuel : nat) (a : adjk) (t n : Z) : res Z :=
  match adjust fuel a t with
  | None => OutOfFuel
  | Some s =>
      if add_uses_table n then
        match dt2int T s with
        | None => KeyError
        | Some i => match int2dt T (i + n) with None => KeyError | Some r => Ok r end
        end
      else match add_loop fuel n (s + n) with None => OutOfFuel | Some r => Ok r end
  end.
(* bdays: self.dt2int[self.adjust(t1, adj)] - self.dt2int[self.adjust(t0, adj)] *)
Definition bdays (T : list Z) (fuel : nat) (a : adjk) (x y : Z) : res Z :=
  match adjust fuel a y with None => OutOfFuel | Some sy =>
  match dt2int T sy with None => KeyError | Some iy =>
  match adjust fuel a x with None => OutOfFuel | Some sx =>
  match dt2int T sx with None => KeyError | Some ix => Ok (iy - ix) end end end end.
(* drange(x, y, '1b'): i0 = dt2int[adjust(x)]; i1 = dt2int[adjust(y)]; [int2dt[i] for i in range(i0, i1+1)] *)
Definition drange_1b (T : list Z) (fuel : nat) (a : adjk) (x y : Z) : res (list Z) :=
  match adjust fuel a x with None => OutOfFuel | Some sx =>
  match dt2int T sx with None => KeyError | Some i0 =>
  match adjust fuel a y with None => OutOfFuel | Some sy =>
  match dt2int T sy with None => KeyError | Some i1 =>
    lookup_all T (rng i0 (Z.to_nat (i1 + 1 - i0)))
  end end end end.

(* clock: self.dt2int.get(date, self.dt2int[self.adjust(date)])  (the default is evaluated eagerly; for a date in the
   table adjust(date) = date, so this is dt2int[adjust(date)]) *)
Definition clock (T : list Z) (fuel : nat) (a : adjk) (t : Z) : res Z :=
  match adjust fuel a t with None => OutOfFuel | Some s =>
  match dt2int T s with None => KeyError | Some i => Ok i end end.
(* Calendar.dt_bump with a string of b-periods: for each token  [+-]?<digits>b :
     if bmp == '+0b': t = adjust(t,'f') elif bmp == '-0b': t = adjust(t,'p');  t = self.add(t, int(bmp[:-1]), adj)
   a token is (n, z) with z = 1 for the literal '+0b', -1 for '-0b', 0 otherwise *)
Fixpoint dt_bump_b (T : list Z) (fuel : nat) (a : adjk) (t : Z) (toks : list (Z * Z)) : res Z :=
  match toks with
  | [] => Ok t
  | (n, z) :: r =>
      match (if z =? 1 then adjust_f fuel t else if z =? -1 then adjust_p fuel t else Some t) with
      | None => OutOfFuel
      | Some t' => match add T fuel a t' n with Ok t2 => dt_bump_b T fuel a t2 r | e => e end
      end
  end.

(* ---- SPEC (the property sentence): r is the n-th business day counted from s ---- *)
Definition nth_bday (s n r : Z) : Prop :=
  (n = 0 /\ r = s) \/
  (0 < n /\ s < r /\ is_bday r = true /\ cnt is_bday (s + 1) (r + 1) = n) \/
  (n < 0 /\ r < s /\ is_bday r = true /\ cnt is_bday r s = - n).
End Cal.

(* ---- registry: calendars = dict(); calendar(key, holidays, weekend, t0, t1) ---- *)
Section Registry.
Variable V : Type.              (* what a Calendar is built from: its constructor arguments *)
Variable default : V.           (* Calendar(key) with no arguments *)
Definition registry := list (Z * V).
Fixpoint reg_lookup (k : Z) (st : registry) : option V :=
  match st with [] => None | (k', v) :: r => if k' =? k then Some v else reg_lookup k r end.
(* calendars[key] = v : overwrite in place, else append (dict insertion order) *)
Fixpoint reg_set (k : Z) (v : V) (st : registry) : registry :=
  match st with
  | [] => [(k, v)]
  | (k', v') :: r => if k' =? k then (k, v) :: r else (k', v') :: reg_set k v r
  end.
(* one call: arg = None when holidays, weekend, t0, t1 are all None *)
Definition calendar_call (st : registry) (k : Z) (arg : option V) : registry * V :=
  match arg with
  | Some v => (reg_set k v st, v)
  | None => match reg_lookup k st with
            | Some v => (st, v)
            | None => (reg_set k default st, default)
            end
  end.
Fixpoint calendar_calls (st : registry) (ops : list (Z * option V)) : registry * list V :=
  match ops with
  | [] => (st, [])
  | (k, arg) :: r => let '(st1, v) := calendar_call st k arg in
                     let '(st2, vs) := calendar_calls st1 r in (st2, v :: vs)
  end.
(* what calendar(key) returns in state st *)
Definition reg_get (st : registry) (k : Z) : V := snd (calendar_call st k None).
(* SPEC: the arguments of the last registration of k in a history *)
Fixpoint last_put (k : Z) (ops : list (Z * option V)) : option V :=
  match ops with
  | [] => None
  | (k', arg) :: r => match last_put k r with
                      | Some v => Some v
                      | None => if k' =? k then arg else None
                      end
  end.
End Registry.
Arguments reg_lookup {V}. Arguments reg_set {V}. Arguments calendar_call {V}. Arguments calendar_calls {V}.
Arguments reg_get {V}. Arguments last_put {V}.

(* ---- execution instance ---- *)
Definition hol_of (l : list Z) (d : Z) : bool := existsb (Z.eqb d) l.
Definition wk_of (l : list Z) (w : Z) : bool := existsb (Z.eqb w) l.
Definition month_of_ord (d : Z) : Z := let '(_, m, _) := ymd_of_ord d in m.
(* constructor arguments with the defaults of Calendar.__init__: weekend [5;6], TMIN = 1900-01-01, TMAX = 2300-01-01 *)
Definition cal_args := (list Z * list Z * Z * Z)%type.
Definition TMIN_ord : Z := 693596.
Definition TMAX_ord : Z := 839693.
Definition mk_args (h w : option (list Z)) (a b : option Z) : cal_args :=
  (match h with Some l => l | None => [] end, match w with Some l => l | None => [5; 6] end,
   match a with Some x => x | None => TMIN_ord end, match b with Some x => x | None => TMAX_ord end).
Definition default_args : cal_args := mk_args None None None None.
(* `key not in calendars or holidays is not None or weekend is not None or t0 is not None or t1 is not None` *)
Definition call_arg (h w : option (list Z)) (a b : option Z) : option cal_args :=
  match h, w, a, b with None, None, None, None => None | _, _, _, _ => Some (mk_args h w a b) end.

(* ---- registry with the lazily populated tables ----
   A registered Calendar object carries its constructor arguments v AND, once _populate has run on it,
   the cached tables (dt2int / int2dt).  `calendars[key] = Calendar(...)` stores a FRESH object (no tables);
   a table-path method (add with |n| > 1, bdays, drange 'b', clock) on the fetched object populates it in place. *)
Section RegistryT.
Variables V T : Type.
Variable build : V -> T.          (* _populate for the arguments v *)
Variable default : V.
Definition tentry := (V * option T)%type.
Inductive rop :=
  | OCall (k : Z) (arg : option V)        (* calendar(key, ...): arg = None when no argument is given *)
  | OObj (k : Z) (f : V -> option V)      (* c = calendar(key); calendar(c, ...): f (arguments of c) = the merged arguments, None when no argument is given *)
  | OUse (k : Z).                         (* c = calendar(key); a table-path method of c *)
Definition t_call (st : registry tentry) (k : Z) (arg : option V) : registry tentry * V :=
  match arg with
  | Some v => (reg_set k (v, None) st, v)
  | None => match reg_lookup k st with
            | Some (v, _) => (st, v)
            | None => (reg_set k (default, None) st, default)
            end
  end.
Definition t_obj (st : registry tentry) (k : Z) (f : V -> option V) : registry tentry * V :=
  let '(st1, v) := t_call st k None in
  match f v with Some v' => (reg_set k (v', None) st1, v') | None => (st1, v) end.
(* the table the method call reads (and caches) *)
Definition t_use (st : registry tentry) (k : Z) : registry tentry * T :=
  match reg_lookup k st with
  | Some (v, Some t) => (st, t)
  | Some (v, None) => (reg_set k (v, Some (build v)) st, build v)
  | None => (reg_set k (default, Some (build default)) st, build default)
  end.
Definition t_step (st : registry tentry) (o : rop) : registry tentry :=
  match o with OCall k arg => fst (t_call st k arg) | OObj k f => fst (t_obj st k f) | OUse k => fst (t_use st k) end.
Definition t_run (ops : list rop) (st : registry tentry) : registry tentry := fold_left t_step ops st.
(* what calendar(k) is built from / which table a table-path call on calendar(k) reads, in state st *)
Definition t_args (st : registry tentry) (k : Z) : V :=
  match reg_lookup k st with Some (v, _) => v | None => default end.
Definition t_table (st : registry tentry) (k : Z) : T := snd (t_use st k).
(* every cached table was built from the arguments stored next to it *)
Definition coherent (st : registry tentry) : Prop :=
  forall k v t, reg_lookup k st = Some (v, Some t) -> t = build v.
(* SPEC: the registrations alone (no objects, no caches): key -> arguments last registered *)
Definition spec_step (g : Z -> V) (o : rop) : Z -> V :=
  match o with
  | OCall k (Some v) => fun k' => if k =? k' then v else g k'
  | OCall k None => g
  | OObj k f => match f (g k) with Some v' => fun k' => if k =? k' then v' else g k' | None => g end
  | OUse k => g
  end.
Definition spec_run (ops : list rop) (g : Z -> V) : Z -> V := fold_left spec_step ops g.
End RegistryT.
Arguments OCall {V}. Arguments OObj {V}. Arguments OUse {V}.
Arguments t_call {V T}. Arguments t_obj {V T}. Arguments t_use {V T}. Arguments t_step {V T}. Arguments t_run {V T}.
Arguments t_args {V T}. Arguments t_table {V T}. Arguments coherent {V T}. Arguments spec_step {V}. Arguments spec_run {V}.

(* execution instance: the tables of a calendar built from its constructor arguments *)
Definition build_args (v : cal_args) : list Z := let '(h, w, a, b) := v in populate (hol_of h) (wk_of w) a b.
(* calendar(cal_object, holidays, weekend, t0, t1): `holidays = holidays or list(key.holidays.keys())`,
   `weekend = weekend or key.weekend`, `t0 = t0 or key.t0`, `t1 = t1 or key.t1` (an empty list is falsy) *)
Definition or_list (x : option (list Z)) (cur : list Z) : list Z :=
  match x with Some (y :: l) => y :: l | _ => cur end.
Definition or_z (x : option Z) (cur : Z) : Z := match x with Some y => y | None => cur end.
Definition call_arg_obj (h w : option (list Z)) (a b : option Z) (cur : cal_args) : option cal_args :=
  match h, w, a, b with
  | None, None, None, None => None
  | _, _, _, _ => let '(ch, cw, ca, cb) := cur in Some (or_list h ch, or_list w cw, or_z a ca, or_z b cb)
  end.
