(* C11: executable model of dictable._listby / listby / unlist / groupby / ungroup / xyz (pivot) / unpivot.
   Definitions only; proofs in proofs/P_group.v.  Reuses cmp / sort / dictable.sort's decorate-sort of M_sort. *)
From Coq Require Import ZArith List Bool.
From PB Require Import model.M_sort.
Import ListNotations.
Open Scope Z_scope.

(* the run test of _listby: `cmp(key, prev) == 0` (since /repo 9228ab2; it was `key == prev`, element-wise `is or ==`,
   which coincides with it on keys satisfying eq_cmp_compat: NaN-free scalars, or NaN cells that are one object) *)
Definition key_eqb (a b : val) : bool := cmp a b =? 0.

(* keys2id = sort(list(zip(keys, range(len(self))))) *)
Definition sorted_pairs (ks : list val) : list (val * nat) := map (fun i => (nth i ks VNone, i)) (dsort_idx ks).

(* the run-length loop of _listby: a row joins the current run when its key == the previous key;
   the run is filed under the LAST key seen in it (prev) *)
Fixpoint group (l : list (val * nat)) : list (val * list nat) :=
  match l with
  | [] => []
  | (k, i) :: l' =>
      let gl := group l' in
      match l' with
      | [] => [(k, [i])]
      | (k2, _) :: _ =>
          match gl with
          | (rep, is) :: g => if key_eqb k2 k then (rep, i :: is) :: g else (k, [i]) :: (rep, is) :: g
          | [] => [(k, [i])]
          end
      end
  end.
Definition listby_groups (ks : list val) : list (val * list nat) := group (sorted_pairs ks).

Definition name_eqb (a b : colname) : bool := match cmp_str a b with Eq => true | _ => false end.
Definition in_names (c : colname) (l : list colname) : bool := existsb (name_eqb c) l.
Definition getcol (t : table) (c : colname) : list val :=
  match find (fun cv => name_eqb c (fst cv)) t with Some cv => snd cv | None => [] end.
Definition key_cols (by_ : list colname) (r : arow) : val := VTuple (map (lookup r) by_).
Definition tuple_nth (j : nat) (v : val) : val := match v with VTuple l => nth j l VNone | _ => VNone end.
Definition tuple_firstn (j : nat) (v : val) : val := match v with VTuple l => VTuple (firstn j l) | _ => VNone end.
Definition keys_of (by_ : list colname) (t : table) : list val := map (key_cols by_) (rows t).
Definition nonkey (by_ : list colname) (t : table) : table := filter (fun cv => negb (in_names (fst cv) by_)) t.
Definition key_table (by_ : list colname) (g : list (val * list nat)) : table :=
  map (fun jc => (snd jc, map (fun gi => tuple_nth (fst jc) (fst gi)) g)) (combine (seq 0 (length by_)) by_).
Definition all_if_none (by_ : list colname) (t : table) : list colname := match by_ with [] => map fst t | _ => by_ end.

(* listby: one row per group; key cells = the group's key, every other cell = the list of the group's values *)
Definition listby (by0 : list colname) (t : table) : table :=
  match nrows t with
  | O => t
  | _ => let by_ := all_if_none by0 t in
         let g := listby_groups (keys_of by_ t) in
         key_table by_ g ++ map (fun cv => (fst cv, map (fun gi => VList (gather VNone (snd cv) (snd gi))) g)) (nonkey by_ t)
  end.

(* unlist: concat of the rows, each row a little table in which list cells are spread and scalars repeated *)
Definition cell_len (v : val) : nat := match v with VList l => length l | _ => 1%nat end.
Definition row_len (r : arow) : nat := fold_right (fun cv m => Nat.max (cell_len (snd cv)) m) 1%nat r.
Definition spread (n : nat) (v : val) : list val :=
  match v with
  | VList [x] => repeat x n
  | VList l => l
  | x => repeat x n
  end.
Definition unlist (t : table) : table :=
  match nrows t with
  | O => t
  | n => map (fun cv => (fst cv, flat_map (fun i => spread (row_len (row t i)) (nth i (snd cv) VNone)) (seq 0 n))) t
  end.

(* groupby: key table + one sub-table (the non-key columns of the group's rows) per key.  None = ValueError *)
Definition groupby (by0 : list colname) (t : table) : option (table * list table) :=
  match nrows t with
  | O => Some (t, [])
  | _ => let by_ := all_if_none by0 t in
         if Nat.eqb (length by_) (length t) then None
         else let g := listby_groups (keys_of by_ t) in
              Some (key_table by_ g, map (fun gi => map (fun cv => (fst cv, gather VNone (snd cv) (snd gi))) (nonkey by_ t)) g)
  end.
(* ungroup: each sub-table with its key cells repeated alongside, concatenated *)
Definition ungroup (kt : table) (subs : list table) : table :=
  map (fun c => (c, flat_map (fun s => getcol s c) subs)) (match subs with s :: _ => map fst s | [] => [] end)
  ++ map (fun cv => (fst cv, flat_map (fun p => repeat (fst p) (nrows (snd p))) (combine (snd cv) subs))) kt.

(* ---- pivot *)
Inductive agg := ANone | ALast | AFirst | ALen | ASum.
Definition vsum (l : list val) : val :=
  VNum false (fold_right (fun v s => match v with VNum _ t => t + s | _ => s end) 0 l).
Definition apply_agg (a : agg) (l : list val) : val :=
  match a with
  | ANone => VList l
  | ALast => last l VNone
  | AFirst => hd VNone l
  | ALen => VNum false (2 * Z.of_nat (length l))
  | ASum => vsum l
  end.
(* column label of a y value: str(key) if is_int(key) else key.  Strings label themselves, ints their decimal digits;
   a float stays a float key in python - observed through str(), i.e. '2.5' / '-10.5' / '3.0' for the half-integers generated *)
Fixpoint pos_digits (fuel : nat) (n : Z) (acc : list N) : list N :=
  match fuel with
  | O => acc
  | S f => if n <? 10 then Z.to_N (48 + n) :: acc else pos_digits f (n / 10) (Z.to_N (48 + n mod 10) :: acc)
  end.
Definition int_label (n : Z) : list N := if n <? 0 then 45%N :: pos_digits 60 (- n) [] else pos_digits 60 n [].
Definition label_of (v : val) : colname :=
  match v with
  | VStr s => s
  | VNum false t => int_label (t / 2)
  | VNum true t => (if t <? 0 then [45%N] else []) ++ pos_digits 60 (Z.abs t / 2) [] ++ [46%N; if Z.odd t then 53%N else 48%N]
  | _ => [63%N]
  end.
Fixpoint index_of (x : val) (l : list val) (i : nat) : option nat :=
  match l with [] => None | v :: l' => if elem_eqb v x then Some i else index_of x l' (S i) end.

Definition pivot (x : list colname) (y z : colname) (a : agg) (t : table) : table :=
  let g := listby_groups (keys_of (x ++ [y]) t) in                                  (* xys, ids = self._listby(x + (y,)) *)
  let xys := map fst g in
  let zs := getcol t z in
  let ylabels := map (fun gi => tuple_nth 0 (fst gi))                                 (* ys = rs[[y]].listby(y) *)
                     (listby_groups (map (fun xy => VTuple [tuple_nth (length x) xy]) xys)) in
  let xg := listby_groups (map (tuple_firstn (length x)) xys) in                     (* xs, yids = rs._listby(x) *)
  let cell (gi : val * list nat) (k : nat) : val :=
      fold_left (fun acc j =>
                   match index_of (tuple_nth (length x) (nth j xys VNone)) ylabels 0 with
                   | Some k' => if Nat.eqb k k' then apply_agg a (gather VNone zs (snd (nth j g (VNone, [])))) else acc
                   | None => acc
                   end) (snd gi) VNone in
  key_table x xg ++ map (fun kl => (label_of (snd kl), map (fun gi => cell gi (fst kl)) xg)) (combine (seq 0 (length ylabels)) ylabels).

(* unpivot: every non-x column becomes a (label, value) row *)
Definition unpivot (x : list colname) (y z : colname) (t : table) : table :=
  let ycols := nonkey x t in
  let n := length ycols in
  map (fun c => (c, flat_map (fun v => repeat v n) (getcol t c))) x
  ++ [(y, flat_map (fun _ => map (fun cv => VStr (fst cv)) ycols) (seq 0 (nrows t)));
      (z, flat_map (fun i => map (fun cv => nth i (snd cv) VNone) ycols) (seq 0 (nrows t)))].
