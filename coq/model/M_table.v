(* C01 (and C06): executable model of pyg_base.dictable.
   concrete  ctable = python dict  column name -> list of cells   (src/pyg_base/_dictable.py)
   abstract  rtable = the plain list of records of the property text.
   Definitions only; proofs are in proofs/P_table.v.
   A python dict is an association list in insertion order; the ORDER of the keys is not part
   of any observation (dict_concat builds keys from a set -> hash order): observations are
   compared after sorting columns by name (exec/X_table.v). *)
From Coq Require Import ZArith List Bool String Ascii Lia.
Import ListNotations.

(* ------------------------------------------------------------------ cells *)
Inductive cell :=
| CNone
| CNum (isfloat : bool) (twice : Z)      (* the finite number twice/2; 1 and 1.0 differ in isfloat only *)
| CNaN (id : N)                          (* a NaN object; id = object identity *)
| CStr (s : string)
| CDate (us : Z)
| CInf (neg : bool).                     (* float('inf') / float('-inf') *)

(* python == on cells *)
Definition py_eq (a b : cell) : bool :=
  match a, b with
  | CNone, CNone => true
  | CNum _ x, CNum _ y => Z.eqb x y
  | CStr s, CStr t => String.eqb s t
  | CDate x, CDate y => Z.eqb x y
  | CInf a, CInf b => Bool.eqb a b
  | _, _ => false
  end.
(* python `is` as far as it is observable: same constructor, same payload, same NaN object *)
Definition py_is (a b : cell) : bool :=
  match a, b with
  | CNone, CNone => true
  | CNum f x, CNum g y => Bool.eqb f g && Z.eqb x y
  | CNaN i, CNaN j => N.eqb i j
  | CStr s, CStr t => String.eqb s t
  | CDate x, CDate y => Z.eqb x y
  | CInf a, CInf b => Bool.eqb a b
  | _, _ => false
  end.
(* CPython's  x in l  *)
Definition py_in (x : cell) (l : list cell) : bool := existsb (fun y => py_is x y || py_eq x y) l.
(* pyg_base is_nan: NaN or +-inf *)
Definition is_nan (c : cell) : bool := match c with CNaN _ | CInf _ => true | _ => false end.
Definition is_none (c : cell) : bool := match c with CNone => true | _ => false end.

(* ------------------------------------------------------------------ errors *)
Inductive err := EValue | EKey | EIndex | EType.
Definition res (A : Type) := (A + err)%type.
Definition Ok {A} (a : A) : res A := inl a.
Definition Err {A} (e : err) : res A := inr e.
Definition bind {A B} (x : res A) (f : A -> res B) : res B := match x with inl a => f a | inr e => inr e end.
Notation "x >>= f" := (bind x f) (at level 50, left associativity).
Definition rmap {A B} (f : A -> B) (x : res A) : res B := match x with inl a => inl (f a) | inr e => inr e end.
Fixpoint mapM {A B} (f : A -> res B) (l : list A) : res (list B) :=
  match l with
  | [] => Ok []
  | a :: l' => match f a with inr e => inr e | inl b => match mapM f l' with inr e => inr e | inl bs => inl (b :: bs) end end
  end.

(* ------------------------------------------------------------------ python dict = assoc list in insertion order *)
Definition colname := string.
Fixpoint aset {V} (k : colname) (v : V) (d : list (colname * V)) : list (colname * V) :=
  match d with
  | [] => [(k, v)]
  | (k', v') :: d' => if String.eqb k k' then (k', v) :: d' else (k', v') :: aset k v d'
  end.
Fixpoint aget {V} (k : colname) (d : list (colname * V)) : option V :=
  match d with
  | [] => None
  | (k', v') :: d' => if String.eqb k k' then Some v' else aget k d'
  end.
Fixpoint adel {V} (k : colname) (d : list (colname * V)) : list (colname * V) :=
  match d with
  | [] => []
  | (k', v') :: d' => if String.eqb k k' then d' else (k', v') :: adel k d'
  end.
Definition keys {V} (d : list (colname * V)) : list colname := map fst d.
Definition vals {V} (d : list (colname * V)) : list V := map snd d.
Definition mapv {V W} (f : V -> W) (d : list (colname * V)) : list (colname * W) := map (fun kv => (fst kv, f (snd kv))) d.
Definition dict_of {V} (kvs : list (colname * V)) : list (colname * V) := fold_left (fun d kv => aset (fst kv) (snd kv) d) kvs [].
Definition mem (k : colname) (l : list colname) : bool := existsb (String.eqb k) l.
Definition get_or_none (k : colname) (r : list (colname * cell)) : cell := match aget k r with Some x => x | None => CNone end.

Definition record := list (colname * cell).
Definition ctable := list (colname * list cell).
Record rtable := mkR { cols : list colname; recs : list record }.

(* ------------------------------------------------------------------ _zip.py *)
(* lens( *values): common List.length; len-1 values are broadcastable; two other lengths -> ValueError *)
Definition lens (ls : list nat) : option nat :=
  match nodup Nat.eq_dec (filter (fun n => negb (Nat.eqb n 1)) ls) with
  | [] => Some (match ls with [] => 0 | _ => 1 end)
  | [x] => Some x
  | _ => None
  end.
(* list(value) * n if len(value) == 1   (only when n > 1) *)
Definition bcast {A} (n : nat) (l : list A) : list A :=
  match l with [x] => if Nat.ltb 1 n then repeat x n else l | _ => l end.
Definition zipper2 {A B} (xs : list A) (ys : list B) : res (list (A * B)) :=
  match lens [List.length xs; List.length ys] with
  | None => Err EValue
  | Some n => Ok (combine (bcast n xs) (bcast n ys))
  end.
Definition minlen (ls : list (list cell)) : nat :=
  match ls with [] => 0 | l :: r => fold_left (fun m x => Nat.min m (List.length x)) r (List.length l) end.
(* zip( *cs) : stops at the shortest *)
Definition zip_star (cs : list (list cell)) : list (list cell) :=
  map (fun i => map (fun c => nth i c CNone) cs) (seq 0 (minlen cs)).
Definition zipperN (vs : list (list cell)) : res (list (list cell)) :=
  match lens (map (@List.length cell) vs) with
  | None => Err EValue
  | Some n => Ok (zip_star (map (bcast n) vs))
  end.

(* ------------------------------------------------------------------ python list indexing *)
Definition py_nth {A} (l : list A) (i : Z) : res A :=
  let n := Z.of_nat (List.length l) in
  let j := if (i <? 0)%Z then (i + n)%Z else i in
  if ((0 <=? j)%Z && (j <? n)%Z)%bool then
    match nth_error l (Z.to_nat j) with Some x => Ok x | None => Err EIndex end
  else Err EIndex.
(* l[a:b] *)
Definition slice_bound (n : Z) (x : Z) : Z := if (x <? 0)%Z then Z.max (x + n) 0 else Z.min x n.
Definition slice_list {A} (a b : option Z) (l : list A) : list A :=
  let n := Z.of_nat (List.length l) in
  let s := match a with Some x => slice_bound n x | None => 0%Z end in
  let e := match b with Some x => slice_bound n x | None => n end in
  firstn (Z.to_nat (e - s)) (skipn (Z.to_nat s) l).

(* list(range(a, b, s)), s <> 0 *)
Fixpoint range_up (fuel : nat) (a b s : Z) : list Z :=
  match fuel with O => [] | S f => if (a <? b)%Z then a :: range_up f (a + s)%Z b s else [] end.
Fixpoint range_down (fuel : nat) (a b s : Z) : list Z :=
  match fuel with O => [] | S f => if (b <? a)%Z then a :: range_down f (a + s)%Z b s else [] end.
Definition py_range (a b s : Z) : list Z :=
  if (0 <? s)%Z then range_up (Z.to_nat (b - a)) a b s
  else if (s <? 0)%Z then range_down (Z.to_nat (a - b)) a b s else [].
(* l[a:b:s]: slice.indices(len(l)) then the cells at those positions *)
Definition slice_bound_neg (n : Z) (x : Z) : Z := if (x <? 0)%Z then Z.max (x + n) (-1) else Z.min x (n - 1).
Definition slice_idx (a b : option Z) (s : Z) (n : Z) : list Z :=
  if (0 <? s)%Z then py_range (match a with Some x => slice_bound n x | None => 0%Z end) (match b with Some x => slice_bound n x | None => n end) s
  else py_range (match a with Some x => slice_bound_neg n x | None => (n - 1)%Z end) (match b with Some x => slice_bound_neg n x | None => (-1)%Z end) s.
Definition in_range (n : nat) (i : Z) : bool := ((0 <=? i)%Z && (i <? Z.of_nat n)%Z)%bool.
Definition sel_idx {A} (d : A) (idx : list Z) (l : list A) : list A :=
  map (fun i => nth (Z.to_nat i) l d) (filter (in_range (List.length l)) idx).
Definition slice_step {A} (d : A) (a b : option Z) (s : Z) (l : list A) : list A :=
  sel_idx d (slice_idx a b s (Z.of_nat (List.length l))) l.

(* ------------------------------------------------------------------ values, named functions *)
Inductive cval := VS (c : cell) | VL (l : list cell).
(* _value: None -> [None], scalar -> [x], list -> the list *)
Definition value_list (v : cval) : list cell := match v with VS c => [c] | VL l => l end.

(* row functions: python lambdas whose argument names are column names
     RCoalesce a b = lambda a, b: b if a is None else a
     RIsNone a     = lambda a: 1 if a is None else 0
     RIdent a      = lambda a: a
     REq a b       = lambda a, b: 1 if a == b else 0
     RIn a l       = lambda a: 1 if a in l else 0          (used by C06)
   a missing argument is a TypeError (kwargs_support passes only what the row has) *)
Inductive rowfn := RCoalesce (a b : colname) | RIsNone (a : colname) | RIdent (a : colname) | REq (a b : colname)
  | RIn (a : colname) (l : list cell).      (* a closure / bound method capturing the list l:  lambda a: a in l *)
Definition cbool (b : bool) : cell := CNum false (if b then 2 else 0).
Definition eval_rowfn (f : rowfn) (r : record) : res cell :=
  match f with
  | RCoalesce a b => match aget a r, aget b r with
                     | Some x, Some y => Ok (if is_none x then y else x) | _, _ => Err EType end
  | RIsNone a => match aget a r with Some x => Ok (cbool (is_none x)) | None => Err EType end
  | RIdent a => match aget a r with Some x => Ok x | None => Err EType end
  | REq a b => match aget a r, aget b r with Some x, Some y => Ok (cbool (py_eq x y)) | _, _ => Err EType end
  | RIn a l => match aget a r with Some x => Ok (cbool (py_in x l)) | None => Err EType end
  end.
(* column functions for d.do: first argument is the cell, further arguments are named columns
     FIsNone = lambda v: 1 if v is None else 0;  FNone = lambda v: None;  FIdent = lambda v: v
     FCoalesce b = lambda v, b: b if v is None else v;  FEq b = lambda v, b: 1 if v == b else 0 *)
Inductive colfn := FIsNone | FNone | FIdent | FCoalesce (b : colname) | FEq (b : colname).
Definition eval_colfn (f : colfn) (x : cell) (r : record) : res cell :=
  match f with
  | FIsNone => Ok (cbool (is_none x))
  | FNone => Ok CNone
  | FIdent => Ok x
  | FCoalesce b => match aget b r with Some y => Ok (if is_none x then y else x) | None => Err EType end
  | FEq b => match aget b r with Some y => Ok (cbool (py_eq x y)) | None => Err EType end
  end.
(* relabel: 'x_' prefix, '_x' suffix, keyword map old -> new *)
Inductive relspec := RelPrefix (s : string) | RelSuffix (s : string) | RelMap (m : list (colname * colname)).
Definition ren (sp : relspec) (k : colname) : colname :=
  match sp with
  | RelPrefix s => append s k
  | RelSuffix s => append k s
  | RelMap m => match aget k (dict_of m) with Some k' => k' | None => k end
  end.

(* ================================================================== concrete model: dict of lists *)
Definition tlen (c : ctable) : nat := match lens (map (@List.length cell) (vals c)) with Some n => n | None => 0 end.
(* the tail of __init__: n = lens( *values); len-1 values are repeated n times *)
Definition finish (c : ctable) : res ctable :=
  match lens (map (@List.length cell) (vals c)) with
  | None => Err EValue
  | Some n => Ok (mapv (fun v => match v with [x] => repeat x n | _ => v end) c)
  end.
Definition rec_at (i : nat) (c : ctable) : record := mapv (fun col => nth i col CNone) c.
(* __iter__: zip( *values) re-keyed *)
Definition c_iter (c : ctable) : list record := map (fun i => rec_at i c) (seq 0 (minlen (vals c))).
Definition empty_cols (c : ctable) : ctable := mapv (fun _ => []) c.

Definition union_keys {V} (ds : list (list (colname * V))) : list colname := nodup string_dec (flat_map keys ds).
(* dict_concat on records, then __init__ *)
Definition c_new_records (rs : list record) : res ctable :=
  match rs with
  | [] => Ok []
  | [d] => finish (mapv (fun x => [x]) d)
  | _ => finish (map (fun k => (k, map (get_or_none k) rs)) (union_keys rs))
  end.
Definition c_new_cols (kvs : list (colname * cval)) : res ctable := finish (dict_of (mapv value_list kvs)).
(* dictable(data = rows, columns = names)  /  dictable([names] + rows) *)
Definition c_new_rows (hdr : bool) (names : list colname) (rows : list (list cell)) : res ctable :=
  match hdr, rows with
  | false, [] => Ok (dict_of (map (fun k => (k, [])) names))
  | _, _ =>
    zipperN rows >>= fun cs =>
    zipper2 names cs >>= fun kvs =>
    match dict_of kvs with
    | [] => Ok (if hdr then [] else dict_of (map (fun k => (k, [])) names))
    | d => finish d
    end
  end.
Definition c_set (c : ctable) (key : colname) (v : cval) : res ctable :=
  let n := tlen c in let l := value_list v in
  if (Nat.eqb (List.length l) n || Nat.eqb (List.length c) 0)%bool then Ok (aset key l c)
  else match l with [x] => Ok (aset key (repeat x n) c) | _ => Err EValue end.
Definition c_del (c : ctable) (key : colname) : res ctable :=
  match aget key c with Some _ => Ok (adel key c) | None => Err EKey end.
Definition c_getrow (c : ctable) (i : Z) : res record :=
  mapM (fun kv => py_nth (snd kv) i >>= fun x => Ok (fst kv, x)) c.
Definition c_getcol (c : ctable) (key : colname) : res (list cell) :=
  match aget key c with Some col => Ok col | None => Err EKey end.
Definition c_tuple (c : ctable) (names : list colname) : res (list (list cell)) :=
  mapM (c_getcol c) names >>= fun cs => Ok (zip_star cs).
Definition c_apply (c : ctable) (f : rowfn) : res (list cell) := mapM (eval_rowfn f) (c_iter c).
(* {key: value[a:b:step]}: step None = the plain slice; step 0 raises on the first column (no column: no error) *)
Definition c_slice (c : ctable) (a b st : option Z) : res ctable :=
  match st with
  | None => finish (mapv (slice_list a b) c)
  | Some s => if Z.eqb s 0 then match c with [] => Ok [] | _ => Err EValue end
              else finish (mapv (slice_step CNone a b s) c)
  end.
Definition kept {A} (ps : list (A * bool)) : list A := map fst (filter snd ps).
Definition c_mask (c : ctable) (m : list bool) : res ctable :=
  match m with
  | [] => Ok (empty_cols c)
  | _ => zipper2 (c_iter c) m >>= fun ps =>
         match kept ps with [] => Ok (empty_cols c) | k => c_new_records k end
  end.
Definition c_ints (c : ctable) (idx : list Z) : res ctable :=
  match idx with
  | [] => Ok (empty_cols c)
  | _ => mapM (py_nth (map (@vals cell) (c_iter c))) idx >>= fun rows => c_new_rows false (keys c) rows
  end.
Definition c_proj (c : ctable) (names : list colname) : res ctable :=
  match names with
  | [] => Ok (empty_cols c)
  | _ => mapM (fun k => c_getcol c k >>= fun col => Ok (k, col)) names >>= fun kvs => finish (dict_of kvs)
  end.
(* Dict.__call__ passes key = <name of the new column> as a default: the row's own cells win (a column called "key" is read as such),
   a function with a parameter "key" and no such column sees the new column's name *)
Definition with_key (key : colname) (r : record) : record := r ++ [("key"%string, CStr key)].
Definition c_call (c : ctable) (key : colname) (arg : cval + rowfn) : res ctable :=
  match arg with
  | inl v => c_set c key v
  | inr f => mapM (fun r => eval_rowfn f (with_key key r)) (c_iter c) >>= fun l => c_set c key (VL l)
  end.
Definition c_relabel (c : ctable) (sp : relspec) : res ctable :=
  finish (dict_of (map (fun kv => (ren sp (fst kv), snd kv)) c)).
Definition c_do1 (f : colfn) (c : ctable) (key : colname) : res ctable :=
  mapM (fun r => match aget key r with None => Err EKey | Some x => eval_colfn f x r end) (c_iter c) >>= fun col =>
  c_set c key (VL col).
(* for key in keys: for f in functions: res[key] = [f(row[key], ...) for row in res]  - every step sees the rows as they are then *)
Definition do_steps (ks : list colname) (fs : list colfn) : list (colname * colfn) := flat_map (fun k => map (pair k) fs) ks.
Definition c_do (c : ctable) (fs : list colfn) (ks : option (list colname)) : res ctable :=
  fold_left (fun acc kf => acc >>= fun t => c_do1 (snd kf) t (fst kf)) (do_steps (match ks with None => keys c | Some l => l end) fs) (Ok c).
(* dictable.concat of >= 2 tables: dict_concat over the tables (d.get(key) = [None]*len(d) when absent), sum(value, []) *)
Definition col_or_none (k : colname) (c : ctable) : list cell :=
  match aget k c with Some col => col | None => repeat CNone (tlen c) end.
Definition c_concat (ts : list ctable) : res ctable :=
  match ts with
  | [] => Ok []
  | _ => finish (map (fun k => (k, flat_map (col_or_none k) ts)) (union_keys ts))
  end.
Definition c_of_record (r : record) : res ctable := finish (mapv (fun x => [x]) r).

(* ================================================================== spec: list of records *)
Definition r_empty : rtable := mkR [] [].
Definition abs (c : ctable) : rtable := mkR (keys c) (c_iter c).
Definition rekey (U : list colname) (r : record) : record := map (fun k => (k, get_or_none k r)) U.
Definition cols_set (k : colname) (cs : list colname) : list colname := if mem k cs then cs else cs ++ [k].

Definition r_new_records (rs : list record) : res rtable :=
  match rs with
  | [] => Ok r_empty
  | [d] => Ok (match d with [] => r_empty | _ => mkR (keys d) [d] end)
  | _ => let U := union_keys rs in Ok (match U with [] => r_empty | _ => mkR U (map (rekey U) rs) end)
  end.
(* row i of a column construction: the scalar / the single element / the i-th element *)
Definition r_new_cols (kvs : list (colname * cval)) : res rtable :=
  let d := dict_of (mapv value_list kvs) in
  match lens (map (@List.length cell) (vals d)) with
  | None => Err EValue
  | Some n => Ok (mkR (keys d) (map (fun i => mapv (fun v => match v with [x] => x | _ => nth i v CNone end) d) (seq 0 n)))
  end.
Fixpoint nodupb (l : list colname) : bool := match l with [] => true | x :: l' => (negb (mem x l') && nodupb l')%bool end.
Definition rows_wf (names : list colname) (rows : list (list cell)) : bool :=
  (negb (Nat.eqb (List.length names) 0) && forallb (fun r => Nat.eqb (List.length r) (List.length names)) rows
   && negb (Nat.eqb (List.length rows) 0) && nodupb names)%bool.
(* well-formed rows + headers: each row zipped with the names is a record;
   otherwise (ragged rows, broadcasting of a single name / single cell) no independent claim: the concrete result *)
Definition r_new_rows (hdr : bool) (names : list colname) (rows : list (list cell)) : res rtable :=
  if rows_wf names rows then Ok (mkR names (map (combine names) rows))
  else rmap abs (c_new_rows hdr names rows).
Definition r_setrows (r : rtable) (key : colname) (l : list cell) : rtable :=
  mkR (cols_set key (cols r))
      (match cols r with [] => map (fun x => [(key, x)]) l | _ => map (fun rx => aset key (snd rx) (fst rx)) (combine (recs r) l) end).
Definition r_set (r : rtable) (key : colname) (v : cval) : res rtable :=
  let n := List.length (recs r) in let l := value_list v in
  if (Nat.eqb (List.length l) n || Nat.eqb (List.length (cols r)) 0)%bool then Ok (r_setrows r key l)
  else match l with [x] => Ok (r_setrows r key (repeat x n)) | _ => Err EValue end.
Definition r_del (r : rtable) (key : colname) : res rtable :=
  if mem key (cols r) then
    let cs := filter (fun k => negb (String.eqb key k)) (cols r) in
    Ok (mkR cs (match cs with [] => [] | _ => map (adel key) (recs r) end))     (* a table without columns has no rows *)
  else Err EKey.
Definition r_getrow (r : rtable) (i : Z) : res record :=
  match cols r with [] => Ok [] | _ => py_nth (recs r) i end.
Definition r_getcol (r : rtable) (key : colname) : res (list cell) :=
  if mem key (cols r) then Ok (map (get_or_none key) (recs r)) else Err EKey.
Definition r_tuple (r : rtable) (names : list colname) : res (list (list cell)) :=
  mapM (fun k => if mem k (cols r) then Ok k else Err EKey) names >>= fun ks =>
  match ks with [] => Ok [] | _ => Ok (map (fun rc => map (fun k => get_or_none k rc) ks) (recs r)) end.
Definition r_apply (r : rtable) (f : rowfn) : res (list cell) := mapM (eval_rowfn f) (recs r).
Definition r_slice (r : rtable) (a b st : option Z) : res rtable :=
  match st with
  | None => Ok (mkR (cols r) (slice_list a b (recs r)))
  | Some s => if Z.eqb s 0 then match cols r with [] => Ok r_empty | _ => Err EValue end
              else Ok (mkR (cols r) (slice_step [] a b s (recs r)))
  end.
Definition r_mask (r : rtable) (m : list bool) : res rtable :=
  match m with
  | [] => Ok (mkR (cols r) [])
  | _ => zipper2 (recs r) m >>= fun ps => Ok (mkR (cols r) (kept ps))
  end.
Definition r_ints (r : rtable) (idx : list Z) : res rtable :=
  match idx with
  | [] => Ok (mkR (cols r) [])
  | _ => mapM (py_nth (recs r)) idx >>= fun rs => Ok (mkR (cols r) rs)
  end.
Definition r_proj (r : rtable) (names : list colname) : res rtable :=
  match names with
  | [] => Ok (mkR (cols r) [])
  | _ => mapM (fun k => if mem k (cols r) then Ok k else Err EKey) names >>= fun ks =>
         Ok (mkR (keys (dict_of (map (fun k => (k, tt)) ks)))
                 (map (fun rc => dict_of (map (fun k => (k, get_or_none k rc)) ks)) (recs r)))
  end.
Definition r_call (r : rtable) (key : colname) (arg : cval + rowfn) : res rtable :=
  match arg with
  | inl v => r_set r key v
  | inr f => mapM (fun rc => eval_rowfn f (with_key key rc)) (recs r) >>= fun l => r_set r key (VL l)
  end.
Definition r_relabel (r : rtable) (sp : relspec) : res rtable :=
  Ok (mkR (keys (dict_of (map (fun k => (ren sp k, tt)) (cols r))))
          (map (fun rc => dict_of (map (fun kv => (ren sp (fst kv), snd kv)) rc)) (recs r))).
Definition r_do1 (f : colfn) (r : rtable) (key : colname) : res rtable :=
  mapM (fun rc => match aget key rc with None => Err EKey | Some x => eval_colfn f x rc end) (recs r) >>= fun col =>
  r_set r key (VL col).
Definition r_do (r : rtable) (fs : list colfn) (ks : option (list colname)) : res rtable :=
  fold_left (fun acc kf => acc >>= fun t => r_do1 (snd kf) t (fst kf)) (do_steps (match ks with None => cols r | Some l => l end) fs) (Ok r).
Definition r_union (ts : list rtable) : list colname := nodup string_dec (flat_map cols ts).
(* concatenation appends the rows in order; absent columns are filled with None *)
Definition r_concat (ts : list rtable) : res rtable :=
  match ts with
  | [] => Ok r_empty
  | _ => let U := r_union ts in Ok (mkR U (flat_map (fun t => map (rekey U) (recs t)) ts))
  end.
Definition r_of_record (r : record) : res rtable := Ok (match r with [] => r_empty | _ => mkR (keys r) [r] end).

(* ================================================================== histories *)
Inductive addarg := AddNone | AddZero | AddReg (r : nat) | AddRec (rc : record) | AddRecs (rs : list record).   (* d + [records] *)
Inductive op :=
| ONewRecords (dst : nat) (rs : list record)
| ONewCols (dst : nat) (kvs : list (colname * cval))
| ONewRows (dst : nat) (hdr : bool) (names : list colname) (rows : list (list cell))
| OSet (r : nat) (key : colname) (v : cval)              (* in place *)
| ODel (r : nat) (key : colname)                         (* in place *)
| OGetRow (r : nat) (i : Z)
| OGetCol (r : nat) (key : colname)
| OCell (r : nat) (i : Z) (key : colname)                (* d[i][key] and d[key][i] *)
| OTuple (r : nat) (names : list colname)
| OApply (r : nat) (f : rowfn)
| OIter (r : nat)
| OSlice (dst r : nat) (a b st : option Z)                (* d[a:b:st] *)
| OMask (dst r : nat) (m : list bool)
| OInts (dst r : nat) (idx : list Z)
| OProj (dst r : nat) (names : list colname)
| OCall (dst r : nat) (key : colname) (arg : cval + rowfn)
| ORelabel (dst r : nat) (sp : relspec)
| ODo (dst r : nat) (fs : list colfn) (ks : option (list colname))   (* d.do([f1, f2, ..], *keys) *)
| OConcat (dst : nat) (srcs : list nat)                  (* one source: returns the operand itself *)
| OAdd (dst r : nat) (a : addarg)                        (* d + None, d + 0: return d itself *)
| OCopy (dst r : nat)
| ORange (dst r : nat) (a b s : Z)
| OSub (dst r : nat) (ks : list colname)
| OAnd (dst r : nat) (names : list colname).              (* d & names = d[d.columns & names]: the columns of d that are named, in d's order *)                 (* d - key, d - [keys]: a copy without these columns, absent ones ignored *)                       (* d[range(a, b, s)] = d[list(range(a, b, s))] *)

Inductive out :=
| OutOk | OutErr (e : err) | OutRec (r : record) | OutCells (l : list cell)
| OutRecs (l : list record) | OutTuples (l : list (list cell)) | OutCell2 (a b : res cell).

(* the table-level operations, once for each representation *)
Record TOps (T : Type) := mkOps {
  t_empty : T;
  t_new_records : list record -> res T;
  t_new_cols : list (colname * cval) -> res T;
  t_new_rows : bool -> list colname -> list (list cell) -> res T;
  t_set : T -> colname -> cval -> res T;
  t_del : T -> colname -> res T;
  t_getrow : T -> Z -> res record;
  t_getcol : T -> colname -> res (list cell);
  t_tuple : T -> list colname -> res (list (list cell));
  t_apply : T -> rowfn -> res (list cell);
  t_iter : T -> list record;
  t_slice : T -> option Z -> option Z -> option Z -> res T;
  t_mask : T -> list bool -> res T;
  t_ints : T -> list Z -> res T;
  t_proj : T -> list colname -> res T;
  t_call : T -> colname -> cval + rowfn -> res T;
  t_relabel : T -> relspec -> res T;
  t_do : T -> list colfn -> option (list colname) -> res T;
  t_concat : list T -> res T;
  t_of_record : record -> res T;
  t_keys : T -> list colname
}.
Arguments mkOps {T}. Arguments t_empty {T}. Arguments t_new_records {T}. Arguments t_new_cols {T}. Arguments t_new_rows {T}.
Arguments t_set {T}. Arguments t_del {T}. Arguments t_getrow {T}. Arguments t_getcol {T}. Arguments t_tuple {T}.
Arguments t_apply {T}. Arguments t_iter {T}. Arguments t_slice {T}. Arguments t_mask {T}. Arguments t_ints {T}.
Arguments t_proj {T}. Arguments t_call {T}. Arguments t_relabel {T}. Arguments t_do {T}. Arguments t_concat {T}. Arguments t_of_record {T}. Arguments t_keys {T}.

Definition cops : TOps ctable :=
  mkOps [] c_new_records c_new_cols c_new_rows c_set c_del c_getrow c_getcol c_tuple c_apply c_iter
        c_slice c_mask c_ints c_proj c_call c_relabel c_do c_concat c_of_record (@keys (list cell)).
Definition rops : TOps rtable :=
  mkOps r_empty r_new_records r_new_cols r_new_rows r_set r_del r_getrow r_getcol r_tuple r_apply recs
        r_slice r_mask r_ints r_proj r_call r_relabel r_do r_concat r_of_record cols.

(* registers hold references into a heap of tables: two registers may name the same table *)
Record gstate (T : Type) := mkS { regs : list nat; heap : list T }.
Arguments mkS {T}. Arguments regs {T}. Arguments heap {T}.
Fixpoint upd {A} (i : nat) (x : A) (l : list A) : list A :=
  match l, i with
  | [], _ => []
  | _ :: l', O => x :: l'
  | a :: l', S i' => a :: upd i' x l'
  end.
Section Step.
Context {T : Type} (O : TOps T).
Definition ptr (s : gstate T) (r : nat) : nat := nth r (regs s) 0.
Definition rd (s : gstate T) (r : nat) : T := nth (ptr s r) (heap s) (t_empty O).
Definition fresh (s : gstate T) (dst : nat) (x : res T) : gstate T * out :=
  match x with
  | inl t => (mkS (upd dst (List.length (heap s)) (regs s)) (heap s ++ [t]), OutOk)
  | inr e => (s, OutErr e)
  end.
Definition inplace (s : gstate T) (r : nat) (x : res T) : gstate T * out :=
  match x with
  | inl t => (mkS (regs s) (upd (ptr s r) t (heap s)), OutOk)
  | inr e => (s, OutErr e)
  end.
Definition alias (s : gstate T) (dst r : nat) : gstate T * out := (mkS (upd dst (ptr s r) (regs s)) (heap s), OutOk).
Definition query {A} (s : gstate T) (f : A -> out) (x : res A) : gstate T * out :=
  (s, match x with inl a => f a | inr e => OutErr e end).
(* dictattr.__sub__: copy, then delete every key that is there *)
Definition sub_keys (t : T) (ks : list colname) : T :=
  fold_left (fun acc k => match t_del O acc k with inl t' => t' | inr _ => acc end) ks t.
Definition step (s : gstate T) (o : op) : gstate T * out :=
  match o with
  | ONewRecords dst rs => fresh s dst (t_new_records O (map (@dict_of cell) rs))
  | ONewCols dst kvs => fresh s dst (t_new_cols O kvs)
  | ONewRows dst hdr names rows => fresh s dst (t_new_rows O hdr names rows)
  | OSet r key v => inplace s r (t_set O (rd s r) key v)
  | ODel r key => inplace s r (t_del O (rd s r) key)
  | OGetRow r i => query s OutRec (t_getrow O (rd s r) i)
  | OGetCol r key => query s OutCells (t_getcol O (rd s r) key)
  | OCell r i key =>
      (s, OutCell2 (t_getrow O (rd s r) i >>= fun rc => match aget key rc with Some x => Ok x | None => Err EKey end)
                   (t_getcol O (rd s r) key >>= fun col => py_nth col i))
  | OTuple r names => query s OutTuples (t_tuple O (rd s r) names)
  | OApply r f => query s OutCells (t_apply O (rd s r) f)
  | OIter r => (s, OutRecs (t_iter O (rd s r)))
  | OSlice dst r a b st => fresh s dst (t_slice O (rd s r) a b st)
  | OMask dst r m => fresh s dst (t_mask O (rd s r) m)
  | OInts dst r idx => fresh s dst (t_ints O (rd s r) idx)
  | OProj dst r names => fresh s dst (t_proj O (rd s r) names)
  | OCall dst r key arg => fresh s dst (t_call O (rd s r) key arg)
  | ORelabel dst r sp => fresh s dst (t_relabel O (rd s r) sp)
  | ODo dst r f ks => fresh s dst (t_do O (rd s r) f ks)
  | OConcat dst srcs =>
      match srcs with
      | [r] => alias s dst r
      | _ => fresh s dst (t_concat O (map (rd s) srcs))
      end
  | OAdd dst r a =>
      match a with
      | AddNone | AddZero => alias s dst r
      | AddReg r2 => fresh s dst (t_concat O [rd s r; rd s r2])
      | AddRec rc => fresh s dst (t_of_record O (dict_of rc) >>= fun t2 => t_concat O [rd s r; t2])
      | AddRecs rs => fresh s dst (t_new_records O (map (@dict_of cell) rs) >>= fun t2 => t_concat O [rd s r; t2])
      end
  | OCopy dst r => fresh s dst (Ok (rd s r))
  | ORange dst r a b st =>          (* range(a, b, 0) raises ValueError before the table is touched *)
      fresh s dst (if Z.eqb st 0 then Err EValue else t_ints O (rd s r) (py_range a b st))
  | OSub dst r ks => fresh s dst (Ok (sub_keys (rd s r) ks))
  | OAnd dst r names => fresh s dst (t_proj O (rd s r) (filter (fun k => mem k names) (t_keys O (rd s r))))
  end.
(* a history: the final state and every output, oldest first *)
Definition run (s : gstate T) (ops : list op) : gstate T * list out :=
  fold_left (fun acc o => let '(s', o') := step (fst acc) o in (s', snd acc ++ [o'])) ops (s, []).
End Step.

Definition init_state {T} (O : TOps T) (nregs : nat) : gstate T := mkS (seq 0 nregs) (repeat (t_empty O) nregs).
Definition abs_state (s : gstate ctable) : gstate rtable := mkS (regs s) (map abs (heap s)).

(* the invariant of the property: distinct column names, one common column List.length *)
Definition Rect (c : ctable) : Prop := NoDup (keys c) /\ exists n, Forall (fun kv => List.length (snd kv) = n) c.
Definition rectb (c : ctable) : bool :=
  (Nat.eqb (List.length (nodup string_dec (keys c))) (List.length c)
   && match c with [] => true | kv :: _ => forallb (fun kv' => Nat.eqb (List.length (snd kv')) (List.length (snd kv))) c end)%bool.
Definition nrows (c : ctable) : nat := match c with [] => 0 | kv :: _ => List.length (snd kv) end.
