(* Model of the timeseries operators of pyg_base._pandas (add_/sub_/mul_/div_/pow_/gt_/ge_/lt_/le_,
   min_/max_, df_sum/df_mean/df_count) on top of the alignment model M_align.  Definitions only.
   The cell operation  opc : cell -> cell -> cell  is a parameter: the theorems hold for every opc;
   the executable instances below use exact integer arithmetic (the harness generates integer-valued
   floats whose results stay integer-valued, so float and Z arithmetic agree exactly). *)
From Coq Require Import ZArith List Bool.
From PB Require Import model.M_align.
Import ListNotations.
Open Scope Z_scope.

(* the aligned value of a series at t (what _df_reindex puts there) *)
Definition val_at (m : method) (s : gts cell) (t : Z) : cell :=
  match m with
  | MNone => at_ None s t
  | MFfill => pad_at None (nona is_nan s) t
  | MBfill => bfill_at None (nona is_nan s) t
  end.

(* the aligned row of a frame at t, and the operand cell presync hands the kernel for column x at t:
   the frame's aligned cell if the frame has column x, otherwise the kernel's default scalar (_df_column) *)
Definition row_val (m : method) (c : list Z) (r : gts (list cell)) (t : Z) : list cell :=
  match m with
  | MNone => at_ (nanrow c) r t
  | MFfill => pad_at (nanrow c) (nona row_isnan r) t
  | MBfill => bfill_at (nanrow c) (nona row_isnan r) t
  end.
Definition fcell (m : method) (d : cell) (c : list Z) (r : gts (list cell)) (x t : Z) : cell :=
  if mem x c then row_get c (row_val m c r t) x else d.
(* cell (t, x) of a result object *)
Definition frame_cell (o : obj) (t x : Z) : cell :=
  match o with OF c r => row_get c (at_ (nanrow c) r t) x | _ => None end.

(* any operand presync can hand column by column: Series, scalar, single-column frame (a pseudo-series), proper frame *)
Definition simple (o : obj) : bool :=
  match o with OF [] _ => false | OF _ _ => true | OS _ => true | ON _ => true | _ => false end.
(* is the operand a series (rather than a scalar) in the call for column x *)
Definition is_ser (o : obj) (x : Z) : bool :=
  match o with OF [_] _ => true | OF c _ => mem x c | OS _ => true | _ => false end.
(* the operand cell at (t, x): own aligned cell, the single column of a pseudo-series, the scalar, or the default *)
Definition ocell (m : method) (d : cell) (o : obj) (x t : Z) : cell :=
  match o with
  | OF [c0] r => row_get [c0] (row_val m [c0] r t) c0
  | OF c r => fcell m d c r x t
  | OS s => val_at m s t
  | ON c => c
  | _ => None
  end.

(* operands of the branch without any proper frame: Series, scalar, single-column frame *)
Definition pseudo (o : obj) : bool :=
  match o with OS _ => true | OF [_] _ => true | ON _ => true | _ => false end.

Section OPS.
  Variable opc : cell -> cell -> cell.

  (* the plain pandas operation on two already aligned operands (Series / scalar) *)
  Definition op2 (a b : obj) : obj :=
    match a, b with
    | OS s1, OS s2 => OS (map (fun p => (fst p, opc (snd p) (at_ None s2 (fst p)))) s1)
    | OS s1, ON c => OS (map (fun p => (fst p, opc (snd p) c)) s1)
    | ON c, OS s2 => OS (map (fun p => (fst p, opc c (snd p))) s2)
    | ON c1, ON c2 => ON (opc c1 c2)
    | _, _ => OX (-2)
    end.

  Definition call_series (c : option Z * list tree) : gts cell :=
    match snd c with
    | [Leaf a; Leaf b] => match op2 a b with OS s => s | _ => [] end
    | _ => []
    end.
  (* presync.wrapped's tail + _convert: one call -> its result; one call per column -> a DataFrame *)
  Definition assemble (calls : list (option Z * list tree)) (single1 : bool) : obj :=
    match calls with
    | [] => OS []          (* no common column: _convert of an empty dict is an empty Series *)
    | [(None, [Leaf a; Leaf b])] =>
        match op2 a b with
        | OS s => if single1 then OF [0] (map (fun p => (fst p, [snd p])) s) else OS s
        | r => r
        end
    | _ =>
        let sers := map call_series calls in
        let idx := match sers with s :: _ => index_of s | [] => [] end in
        OF (map (fun c => match fst c with Some x => x | None => 0 end) calls)
           (map (fun t => (t, map (fun s => at_ None s t) sers)) idx)
    end.
  Definition has1 (o : obj) : bool := match o with OF [_] _ => true | _ => false end.

  (* a presync-decorated binary kernel (_add_, _sub_, ...): join policy, fill method, column policy, default *)
  Definition binop (h : how) (m : method) (ch : how) (dflt : cell) (a b : obj) : obj :=
    assemble (presync_calls h m (Some ch) dflt [Leaf a; Leaf b]) (has1 a || has1 b).

  (* reducer: left to right; None for an empty list *)
  Definition reduce (h : how) (m : method) (ch : how) (dflt : cell) (xs : list obj) : option obj :=
    match xs with [] => None | x :: r => Some (fold_left (binop h m ch dflt) r x) end.
End OPS.

(* ---------------- executable cell operations: exact integers extended with +-inf.
   A cell Some z with z = +-INFZ stands for +-inf (the harness carries +-inf as +-10^9; finite operands and results
   stay far below that).  Only the IEEE results that are determined without rounding are used:
   inf + finite = inf, inf - inf = NaN, inf * 0 = NaN, inf / inf = NaN, finite / inf = 0, inf / finite<>0 = +-inf. *)
Definition INFZ : Z := 1000000000.
Inductive ext := Fin (z : Z) | PInf | NInf.
Definition view (z : Z) : ext := if z =? INFZ then PInf else if z =? - INFZ then NInf else Fin z.
Definition unview (e : ext) : Z := match e with Fin z => z | PInf => INFZ | NInf => - INFZ end.
Definition eneg (e : ext) : ext := match e with Fin z => Fin (- z) | PInf => NInf | NInf => PInf end.
Definition esign (pos : bool) : ext := if pos then PInf else NInf.
Definition eadd (x y : ext) : option ext :=
  match x, y with
  | Fin a, Fin b => Some (Fin (a + b))
  | PInf, NInf | NInf, PInf => None
  | PInf, _ | _, PInf => Some PInf
  | NInf, _ | _, NInf => Some NInf
  end.
Definition emul (x y : ext) : option ext :=
  match x, y with
  | Fin a, Fin b => Some (Fin (a * b))
  | Fin a, PInf | PInf, Fin a => if a =? 0 then None else Some (esign (0 <? a))
  | Fin a, NInf | NInf, Fin a => if a =? 0 then None else Some (esign (a <? 0))
  | PInf, PInf | NInf, NInf => Some PInf
  | PInf, NInf | NInf, PInf => Some NInf
  end.
(* _div_: a zero denominator is masked to NaN first *)
Definition ediv (x y : ext) : option ext :=
  match y with
  | Fin b => if b =? 0 then None
             else Some match x with Fin a => Fin (a / b) | PInf => esign (0 <? b) | NInf => esign (b <? 0) end
  | _ => match x with Fin _ => Some (Fin 0) | _ => None end
  end.
Definition lifte (f : ext -> ext -> option ext) (x y : cell) : cell :=
  match x, y with
  | Some a, Some b => match f (view a) (view b) with Some e => Some (unview e) | None => None end
  | _, _ => None
  end.
Definition addc := lifte eadd.
Definition subc := lifte (fun x y => eadd x (eneg y)).
Definition mulc := lifte emul.
Definition divc := lifte ediv.
(* comparisons and min / max need no special case: +-INFZ order correctly against every finite value *)
Definition lift2 (f : Z -> Z -> Z) (x y : cell) : cell :=
  match x, y with Some a, Some b => Some (f a b) | _, _ => None end.
(* numpy float power for integer exponents >= 0: nan**0 = 1 and 1**nan = 1 *)
Definition powc (x y : cell) : cell :=
  match x, y with
  | _, Some 0 => Some 1
  | Some 1, _ => Some 1
  | Some a, Some b => Some (a ^ b)
  | _, _ => None
  end.
Definition cmpc (f : Z -> Z -> bool) (x y : cell) : cell :=
  match x, y with Some a, Some b => Some (if f a b then 1 else 0) | _, _ => Some 0 end.
Definition minc := lift2 Z.min.
Definition maxc := lift2 Z.max.

Inductive opname := OpAdd | OpSub | OpMul | OpDiv | OpPow | OpGt | OpGe | OpLt | OpLe | OpMin | OpMax.
Definition cell_op (o : opname) : cell -> cell -> cell :=
  match o with
  | OpAdd => addc | OpSub => subc | OpMul => mulc | OpDiv => divc | OpPow => powc
  | OpGt => cmpc Z.gtb | OpGe => cmpc Z.geb | OpLt => cmpc Z.ltb | OpLe => cmpc Z.leb
  | OpMin => minc | OpMax => maxc
  end.
(* presync(default = ...) of each kernel: the neutral element where there is one *)
Definition op_default (o : opname) : cell :=
  match o with OpAdd | OpSub => Some 0 | OpMul | OpDiv => Some 1 | _ => None end.

(* an operand of the public wrappers: one object or a list of objects *)
Inductive operand := One (o : obj) | Many (l : list obj) | Absent.
Definition as_list (x : operand) : list obj := match x with One o => [o] | Many l => l | Absent => [] end.

(* add_ / mul_: reducer over as_list(a) + as_list(b) *)
Definition reduce_op (o : opname) (h : how) (m : method) (ch : how) (xs : list obj) : option obj :=
  reduce (cell_op o) h m ch (op_default o) xs.
(* sub_ / div_: lists are first reduced with add_ / mul_ *)
Definition pre_reduce (o : opname) (h : how) (m : method) (ch : how) (x : operand) : option obj :=
  match x with One a => Some a | Many l => reduce_op o h m ch l | Absent => None end.

(* the public operators; None = the call is outside the modelled domain (empty operand list) *)
Definition ts_op (o : opname) (h : how) (m : method) (ch : how) (a b : operand) : option obj :=
  match o with
  | OpAdd | OpMul => reduce_op o h m ch (as_list a ++ as_list b)
  | OpSub => match pre_reduce OpAdd h m ch a, pre_reduce OpAdd h m ch b with
             | Some x, Some y => Some (binop subc h m ch (Some 0) x y) | _, _ => None end
  | OpDiv => match pre_reduce OpMul h m ch a, pre_reduce OpMul h m ch b with
             | Some x, Some y => Some (binop divc h m ch (Some 1) x y) | _, _ => None end
  | OpMin | OpMax => None
  | _ => match a, b with One x, One y => Some (binop (cell_op o) h m ch None x y) | _, _ => None end
  end.

(* the pinned tree's _div_ returns the scalar nan for a scalar zero divisor *)
Definition div_pinned (h : how) (m : method) (ch : how) (a b : obj) : obj :=
  match b with
  | ON (Some 0) => match a with OF c _ => if multi c then OX (-3) else ON None | _ => ON None end
  | _ => binop divc h m ch (Some 1) a b
  end.

(* ---------------- min_ / max_: df_sync then reduce with np.minimum / np.maximum (_align_columns) *)
Section MINMAX.
  Variable opc : cell -> cell -> cell.
  Definition tile (c : list Z) (s : gts cell) : gts (list cell) := map (fun p => (fst p, map (fun _ => snd p) c)) s.
  Definition rows2 (r1 r2 : gts (list cell)) (n : list cell) : gts (list cell) :=
    map (fun p => (fst p, map (fun xy => opc (fst xy) (snd xy)) (combine (snd p) (at_ n r2 (fst p))))) r1.
  (* _align_columns: a one-column frame next to a Series is squeezed to its column (as_series): the result is a Series *)
  Definition squeeze1 (o : obj) : option (gts cell) :=
    match o with OF [c0] r => Some (column [c0] r c0) | _ => None end.
  Definition mm2 (a b : obj) : obj :=
    match a, b with
    | OF c1 r1, OF c2 r2 => OF c1 (rows2 r1 r2 (nanrow c1))
    | OF c1 r1, OS s2 => match squeeze1 a with
                         | Some s1 => op2 opc (OS s1) (OS s2)
                         | None => OF c1 (rows2 r1 (tile c1 s2) (nanrow c1))
                         end
    | OS s1, OF c2 r2 => match squeeze1 b with
                         | Some s2 => op2 opc (OS s1) (OS s2)
                         | None => OF c2 (rows2 (tile c2 s1) r2 (nanrow c2))
                         end
    | OF c1 r1, ON c => OF c1 (map (fun p => (fst p, map (fun x => opc x c) (snd p))) r1)
    | ON c, OF c2 r2 => OF c2 (map (fun p => (fst p, map (fun x => opc c x) (snd p))) r2)
    | _, _ => op2 opc a b
    end.
  Definition minmax (h : how) (m : method) (ch : how) (xs : list obj) : option obj :=
    match flatten (df_sync (TL (map Leaf xs)) h m (Some ch)) with
    | [] => None
    | x :: r => Some (fold_left mm2 r x)
    end.
End MINMAX.

(* ---------------- df_sum / df_mean / df_count *)
(* as the code computes them: NaN replaced by 0 and added up; number of non-NaN operands added up *)
Definition sum_impl (cs : list cell) : Z := fold_left (fun acc c => acc + match c with Some v => v | None => 0 end) cs 0.
Definition n_impl (cs : list cell) : Z := fold_left (fun acc c => acc + if is_nan c then 0 else 1) cs 0.
Inductive agg := ASum | AMean | ACount.
(* +-inf operands (cells Some (+-INFZ)) are DATA: they count, and they decide the sum / mean by the IEEE rules
   (inf + finite = inf, inf + -inf = NaN, inf / n = inf) *)
Definition has_pinf (cs : list cell) : bool := existsb (fun c => match c with Some v => v =? INFZ | None => false end) cs.
Definition has_ninf (cs : list cell) : bool := existsb (fun c => match c with Some v => v =? - INFZ | None => false end) cs.
Definition agg_cell (g : agg) (cs : list cell) : cell :=
  let n := n_impl cs in
  match g with
  | ACount => Some n
  | _ => if n =? 0 then None
         else if has_pinf cs then (if has_ninf cs then None else Some INFZ)
         else if has_ninf cs then Some (- INFZ)
         else match g with ASum => Some (sum_impl cs) | _ => Some (sum_impl cs / n) end
  end.
Definition cell_of (o : obj) (t : Z) (x : Z) : cell :=
  match o with
  | OS s => at_ None s t
  | OF c r => row_get c (at_ (nanrow c) r t) x
  | ON c => c
  | _ => None
  end.
Definition first_frame (os : list obj) : option (list Z * list Z) :=
  match flat_map (fun o => match o with OF c r => [(c, index_of r)] | _ => [] end) os with
  | x :: _ => Some x | [] => None end.
Definition first_series (os : list obj) : option (list Z) :=
  match flat_map (fun o => match o with OS s => [index_of s] | _ => [] end) os with x :: _ => Some x | [] => None end.
Definition df_agg (g : agg) (h : how) (m : method) (ch : how) (xs : list obj) : obj :=
  let os := flatten (df_sync (TL (map Leaf xs)) h m (Some ch)) in
  match first_frame os with
  | Some (C, P) => OF C (map (fun t => (t, map (fun x => agg_cell g (map (fun o => cell_of o t x) os)) C)) P)
  | None =>
      match first_series os with
      | Some P => OS (map (fun t => (t, agg_cell g (map (fun o => cell_of o t 0) os))) P)
      | None => ON (agg_cell g (map (fun o => cell_of o 0 0) os))
      end
  end.

(* spec vocabulary: the non-NaN operands *)
Definition present (cs : list cell) : list Z := flat_map (fun c => match c with Some v => [v] | None => [] end) cs.
Definition zsum (l : list Z) : Z := fold_right Z.add 0 l.
