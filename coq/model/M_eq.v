(* C14 - model of pyg_base._eq.eq / in_ (repaired behaviour, see fixes/C14.patch).
   Definitions only.  Values are the Python objects of the property's universe:

     VNone | bool | finite number (twice the value, so halves are exact; isfloat only
     records the representation: int / float / numpy scalar) | +-inf | NaN (id = object
     identity, irrelevant to eq) | str | datetime-like (microseconds) |
     tuple | list | dict (cls 0 = dict, other = a subclass; items in insertion order) |
     instance of a tuple / list SUBCLASS or namedtuple (VSeq cls) | any other finite float m*2^e, m odd, e < -1 (VFlt;
     equal only to the same float) | ndarray (shape, cells row-major) | Series (index, cells) | DataFrame (index, columns,
     cells row-major).

   eq(x, y) is transcribed arm by arm:
     x list/tuple  -> type(x)==type(y), len equal, all eq(i,j)
     x ndarray     -> type equal, shape equal, 0 in shape or all veq
     x pandas      -> type equal, index (columns) equal, 0 in shape or all veq
     x dict        -> type equal, len equal, sorted items: keys equal and values equal
     x float NaN   -> y float NaN
     otherwise     -> False when y is a container, else x == y
   The recursion of the code sorts dict items at every level on the way down; the model
   sorts all levels first (norm) and then compares structurally (eq_core). *)
From Coq Require Import ZArith NArith List Bool String.
Import ListNotations.
Open Scope Z_scope.

Inductive val :=
| VNone
| VBool (b : bool)
| VNum (isfloat : bool) (twice : Z)
| VInf (neg : bool)
| VNaN (id : N)
| VStr (s : string)
| VDate (us : Z)
| VFlt (m : Z) (e : Z)
| VTuple (l : list val)
| VList (l : list val)
| VSeq (cls : N) (l : list val)
| VDict (cls : N) (items : list (string * val))
| VArr (shape : list Z) (cells : list val)
| VSeries (index : list val) (cells : list val)
| VFrame (index : list val) (columns : list val) (cells : list val).

Definition forall2b {A B} (f : A -> B -> bool) :=
  fix go (l : list A) (l' : list B) : bool :=
    match l, l' with
    | [], [] => true
    | a :: t, b :: t' => f a b && go t t'
    | _, _ => false
    end.

Definition is_container (v : val) : bool :=
  match v with
  | VTuple _ | VList _ | VSeq _ _ | VDict _ _ | VArr _ _ | VSeries _ _ | VFrame _ _ _ => true
  | _ => false
  end.

(* numeric value (twice) of bools and finite numbers: True == 1 == 1.0 *)
Definition num_of (v : val) : option Z :=
  match v with
  | VBool b => Some (if b then 2 else 0)
  | VNum _ t => Some t
  | _ => None
  end.

(* Python's == between two non-container scalars (NaN == anything is False) *)
Definition scalar_eqb (x y : val) : bool :=
  match num_of x, num_of y with
  | Some a, Some b => Z.eqb a b
  | None, None =>
      match x, y with
      | VNone, VNone => true
      | VInf a, VInf b => Bool.eqb a b
      | VStr a, VStr b => String.eqb a b
      | VDate a, VDate b => Z.eqb a b
      | VFlt a c, VFlt b d => Z.eqb a b && Z.eqb c d
      | _, _ => false
      end
  | _, _ => false
  end.

Definition shape_eqb (a b : list Z) : bool := forall2b Z.eqb a b.
Definition has_zero (sh : list Z) : bool := existsb (Z.eqb 0) sh.
Definition is_nil {A} (l : list A) : bool := match l with [] => true | _ => false end.

Fixpoint eq_core (x y : val) {struct x} : bool :=
  match x with
  | VTuple l => match y with VTuple l' => forall2b eq_core l l' | _ => false end
  | VList l => match y with VList l' => forall2b eq_core l l' | _ => false end
  | VSeq cls l => match y with VSeq cls' l' => N.eqb cls cls' && forall2b eq_core l l' | _ => false end
  | VArr sh c =>
      match y with
      | VArr sh' c' => shape_eqb sh sh' && (has_zero sh || forall2b eq_core c c')
      | _ => false
      end
  | VSeries ix c =>
      match y with
      | VSeries ix' c' => forall2b eq_core ix ix' && (is_nil ix || forall2b eq_core c c')
      | _ => false
      end
  | VFrame ix col c =>
      match y with
      | VFrame ix' col' c' =>
          forall2b eq_core ix ix' && forall2b eq_core col col' &&
          (is_nil ix || is_nil col || forall2b eq_core c c')
      | _ => false
      end
  | VDict cls items =>
      match y with
      | VDict cls' items' =>
          N.eqb cls cls' &&
          forall2b (fun kv kv' => String.eqb (fst kv) (fst kv') && eq_core (snd kv) (snd kv')) items items'
      | _ => false
      end
  | VNaN _ => match y with VNaN _ => true | _ => false end
  | _ => if is_container y then false else scalar_eqb x y
  end.

(* sorted(x.items()): insertion sort on the (distinct, str) keys *)
Fixpoint insert_item {A} (kv : string * A) (l : list (string * A)) : list (string * A) :=
  match l with
  | [] => [kv]
  | h :: t => if String.leb (fst kv) (fst h) then kv :: l else h :: insert_item kv t
  end.
Fixpoint sort_items {A} (l : list (string * A)) : list (string * A) :=
  match l with
  | [] => []
  | kv :: t => insert_item kv (sort_items t)
  end.

Fixpoint norm (v : val) : val :=
  match v with
  | VTuple l => VTuple (map norm l)
  | VList l => VList (map norm l)
  | VSeq c l => VSeq c (map norm l)
  | VDict cls items => VDict cls (sort_items (map (fun kv => (fst kv, norm (snd kv))) items))
  | VArr sh c => VArr sh (map norm c)
  | VSeries ix c => VSeries (map norm ix) (map norm c)
  | VFrame ix col c => VFrame (map norm ix) (map norm col) (map norm c)
  | s => s
  end.

Definition eq_model (x y : val) : bool := eq_core (norm x) (norm y).
Definition in_model (x : val) (seq : list val) : bool := existsb (eq_model x) seq.

(* ---------------------------------------------------------------- specs used by the property *)

(* a structural copy holding different NaN objects *)
Fixpoint refresh (f : N -> N) (v : val) : val :=
  match v with
  | VNaN id => VNaN (f id)
  | VTuple l => VTuple (map (refresh f) l)
  | VList l => VList (map (refresh f) l)
  | VSeq c l => VSeq c (map (refresh f) l)
  | VDict cls items => VDict cls (map (fun kv => (fst kv, refresh f (snd kv))) items)
  | VArr sh c => VArr sh (map (refresh f) c)
  | VSeries ix c => VSeries (map (refresh f) ix) (map (refresh f) c)
  | VFrame ix col c => VFrame (map (refresh f) ix) (map (refresh f) col) (map (refresh f) c)
  | s => s
  end.

Inductive kind := KScalar | KTuple | KList | KSeq (cls : N) | KDict (cls : N) | KArr | KSeries | KFrame.
Definition kind_of (v : val) : kind :=
  match v with
  | VTuple _ => KTuple | VList _ => KList | VSeq c _ => KSeq c | VDict c _ => KDict c | VArr _ _ => KArr
  | VSeries _ _ => KSeries | VFrame _ _ _ => KFrame | _ => KScalar
  end.

(* geometry of well-formed arrays / pandas objects *)
Definition arr_wf (sh : list Z) (c : list val) : Prop :=
  Z.of_nat (List.length c) = fold_right Z.mul 1 sh.
Definition frame_wf (ix col c : list val) : Prop := List.length c = (List.length ix * List.length col)%nat.
Definition series_wf (ix c : list val) : Prop := List.length c = List.length ix.

(* Python's own == on NaN-free plain values (None, numbers, str, dates, nested list/tuple/dict):
   dict == dict is by key lookup, independent of insertion order *)
Fixpoint lookup {A} (k : string) (l : list (string * A)) : option A :=
  match l with
  | [] => None
  | h :: t => if String.eqb k (fst h) then Some (snd h) else lookup k t
  end.

Fixpoint py_eq (x y : val) {struct x} : bool :=
  match x with
  | VTuple l => match y with VTuple l' => forall2b py_eq l l' | _ => false end
  | VList l => match y with VList l' => forall2b py_eq l l' | _ => false end
  | VDict _ items =>
      match y with
      | VDict _ items' =>
          Nat.eqb (List.length items) (List.length items') &&
          forallb (fun kv => match lookup (fst kv) items' with
                             | Some v' => py_eq (snd kv) v'
                             | None => false
                             end) items
      | _ => false
      end
  | VNaN _ | VSeq _ _ | VArr _ _ | VSeries _ _ | VFrame _ _ _ => false
  | _ => if is_container y then false else scalar_eqb x y
  end.

Fixpoint nodup_keys {A} (l : list (string * A)) : bool :=
  match l with
  | [] => true
  | h :: t => negb (existsb (fun kv => String.eqb (fst h) (fst kv)) t) && nodup_keys t
  end.

(* plain: what the last clause of the property ranges over *)
Fixpoint plain (v : val) : bool :=
  match v with
  | VNaN _ | VSeq _ _ | VArr _ _ | VSeries _ _ | VFrame _ _ _ => false
  | VTuple l | VList l => forallb plain l
  | VDict cls items => N.eqb cls 0 && nodup_keys items && forallb (fun kv => plain (snd kv)) items
  | _ => true
  end.
