(* Proleptic Gregorian calendar exactly as CPython's datetime implements it
   (Lib/_pydatetime.py: _days_before_year, _days_in_month, _ymd2ord, _ord2ymd, weekday).
   Datetimes are Z: either ordinals (days, 0001-01-01 = 1) or microseconds since
   ordinal 0 at midnight ("us").  Definitions only: no proofs here. *)
From Coq Require Import ZArith List Bool.
Import ListNotations.
Open Scope Z_scope.

Definition is_leap (y : Z) : bool :=
  ((y mod 4 =? 0) && negb (y mod 100 =? 0)) || (y mod 400 =? 0).
Definition dim (y m : Z) : Z :=
  if m =? 2 then (if is_leap y then 29 else 28)
  else if (m =? 4) || (m =? 6) || (m =? 9) || (m =? 11) then 30 else 31.
Definition days_before_year (y : Z) : Z :=
  let y1 := y - 1 in y1 * 365 + y1 / 4 - y1 / 100 + y1 / 400.
(* days before month m of year y (m in 1..13) *)
Definition dbm (y m : Z) : Z :=
  let leap := if is_leap y then 1 else 0 in
  if m <=? 1 then 0 else if m =? 2 then 31 else
  leap + (if m =? 3 then 59 else if m =? 4 then 90 else if m =? 5 then 120
  else if m =? 6 then 151 else if m =? 7 then 181 else if m =? 8 then 212
  else if m =? 9 then 243 else if m =? 10 then 273 else if m =? 11 then 304
  else if m =? 12 then 334 else 365).
Definition valid_ymd (y m d : Z) : bool :=
  (1 <=? y) && (1 <=? m) && (m <=? 12) && (1 <=? d) && (d <=? dim y m).
Definition ord_of_ymd (y m d : Z) : Z := days_before_year y + dbm y m + d.
(* _ord2ymd, split at the 400-year cycle: n400 = whole cycles, n = day within the cycle *)
Definition ymd_core (n400 n : Z) : Z * Z * Z :=
  let year := n400 * 400 + 1 in
  let n100 := n / 36524 in let n := n mod 36524 in
  let n4 := n / 1461 in let n := n mod 1461 in
  let n1 := n / 365 in let n := n mod 365 in
  let year := year + n100 * 100 + n4 * 4 + n1 in
  if (n1 =? 4) || (n100 =? 4) then (year - 1, 12, 31) else
  let month := (n + 50) / 32 in
  let preceding := dbm year month in
  if n <? preceding then
    let month := month - 1 in
    (year, month, n - dbm year month + 1)
  else (year, month, n - preceding + 1).
Definition ymd_of_ord (n0 : Z) : Z * Z * Z := ymd_core ((n0 - 1) / 146097) ((n0 - 1) mod 146097).
Definition valid_md (y m d : Z) : bool := (1 <=? m) && (m <=? 12) && (1 <=? d) && (d <=? dim y m).
Definition weekday_ord (n : Z) : Z := (n + 6) mod 7.   (* Monday = 0 *)

(* microsecond datetimes *)
Definition DAYUS : Z := 86400000000.
Definition ord_of_us (t : Z) : Z := t / DAYUS.
Definition tod_of_us (t : Z) : Z := t mod DAYUS.
Definition us_of_ord (n : Z) : Z := n * DAYUS.
Definition weekday (t : Z) : Z := weekday_ord (ord_of_us t).
Definition year_of (t : Z) : Z := let '(y, _, _) := ymd_of_ord (ord_of_us t) in y.
Definition month_of (t : Z) : Z := let '(_, m, _) := ymd_of_ord (ord_of_us t) in m.
Definition day_of (t : Z) : Z := let '(_, _, d) := ymd_of_ord (ord_of_us t) in d.
(* datetime.datetime(y, m, d): None when CPython raises ValueError *)
Definition mk_datetime (y m d : Z) : option Z :=
  if valid_ymd y m d && (y <=? 9999) then Some (us_of_ord (ord_of_ymd y m d)) else None.
Definition yyyymmdd_of_ord (n : Z) : Z := let '(y, m, d) := ymd_of_ord n in y * 10000 + m * 100 + d.
