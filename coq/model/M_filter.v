(* C06: inc / exc / find_<col> / one_or_none of pyg_base.dictable, on the table model of M_table.v.
   concrete: the code's algorithm (copy; callable -> rebuild from the kept rows through dict_concat; keyword filters ->
   one boolean mask per filter applied in sequence; exc -> one mask from the negated conjunction; empty result -> columns re-attached)
   spec: filter / filter-negation on the list of records. Definitions only. *)
From Coq Require Import ZArith List Bool String Ascii Lia.
From PB Require Import model.M_table.
Import ListNotations.

(* regexes are restricted to literal patterns: pattern.search(s) = substring test *)
Fixpoint prefixb (p s : string) : bool :=
  match p, s with
  | EmptyString, _ => true
  | String a p', String b s' => (Ascii.eqb a b && prefixb p' s')%bool
  | _, _ => false
  end.
Fixpoint substrb (p s : string) : bool :=
  (prefixb p s || match s with EmptyString => false | String _ s' => substrb p s' end)%bool.

(* compiled WITH flags: re.I on a literal = substring test on the ASCII-lowercased strings;
   re.M with '^' + literal = some line (start of string or just after a newline) starts with the literal *)
Definition lower_ascii (a : ascii) : ascii :=
  let n := nat_of_ascii a in if (Nat.leb 65 n && Nat.leb n 90)%bool then ascii_of_nat (n + 32) else a.
Fixpoint lower (s : string) : string := match s with EmptyString => EmptyString | String a r => String (lower_ascii a) (lower r) end.
Fixpoint line_prefixb (p s : string) (at_start : bool) : bool :=
  match s with
  | EmptyString => (at_start && prefixb p EmptyString)%bool
  | String a r => ((at_start && prefixb p s) || line_prefixb p r (Ascii.eqb a "010"%char))%bool
  end.
(* a column condition: a value (None and NaN are special), a list of admissible values, a compiled (literal) regex *)
Inductive cond := CVal (x : cell) | CList (l : list cell) | CRegex (p : string)
  | CRegexI (p : string)      (* re.compile(re.escape(p), re.I) *)
  | CRegexM (p : string).     (* re.compile('^' + re.escape(p), re.M) *)
(* _row_check / the arms of inc *)
Definition cond_check (cd : cond) (v : cell) : bool :=
  match cd with
  | CVal CNone => is_none v
  | CVal (CNaN _) => is_nan v
  | CVal (CInf _) => is_nan v            (* is_nan(value) is true for +-inf as well: the same arm *)
  | CVal x => py_in v [x]
  | CList l => py_in v l
  | CRegex p => match v with CStr s => substrb p s | _ => false end
  | CRegexI p => match v with CStr s => substrb (lower p) (lower s) | _ => false end
  | CRegexM p => match v with CStr s => line_prefixb p s true | _ => false end
  end.
(* truth value of a cell returned by a callable *)
Definition truthy (c : cell) : bool :=
  match c with CNone => false | CNum _ t => negb (Z.eqb t 0) | CNaN _ => true | CStr s => negb (String.eqb s "") | CDate _ => true | CInf _ => true end.
Inductive query := QNone | QFun (f : rowfn) | QFilters (fs : list (colname * cond)).

(* ------------------------------------------------------------------ concrete *)
Definition c_or_empty (c res : ctable) : ctable := if Nat.eqb (tlen res) 0 then empty_cols c else res.
Definition c_rebuild (rows : list record) : res ctable := c_new_records rows.
Definition c_filter1 (t : res ctable) (f : colname * cond) : res ctable :=
  t >>= fun t => c_getcol t (fst f) >>= fun col => c_mask t (map (cond_check (snd f)) col).
Definition c_inc (c : ctable) (q : query) : res ctable :=
  match q with
  | QNone => Ok c
  | QFun f => mapM (fun r => rmap truthy (eval_rowfn f r)) (c_iter c) >>= fun keep =>
              c_rebuild (kept (combine (c_iter c) keep)) >>= fun res => Ok (c_or_empty c res)
  | QFilters fs => match dict_of fs with
                   | [] => Ok c
                   | fs' => fold_left c_filter1 fs' (Ok c) >>= fun res => Ok (c_or_empty c res)
                   end
  end.
(* and_(filters)(row): every check is evaluated (a missing key raises), then min *)
Definition row_checks (fs : list (colname * cond)) (r : record) : res bool :=
  rmap (forallb (fun b => b)) (mapM (fun f => match aget (fst f) r with Some v => Ok (cond_check (snd f) v) | None => Err EKey end) fs).
Definition c_exc (c : ctable) (q : query) : res ctable :=
  match q with
  | QNone => Ok c
  | QFun f => mapM (fun r => rmap truthy (eval_rowfn f r)) (c_iter c) >>= fun keep =>
              c_rebuild (kept (combine (c_iter c) (map negb keep))) >>= fun res => Ok (c_or_empty c res)
  | QFilters fs => match dict_of fs with
                   | [] => Ok c
                   | fs' => if Nat.eqb (tlen c) 0 then Ok (empty_cols c)
                            else mapM (row_checks fs') (c_iter c) >>= fun inc_ =>
                                 c_mask c (map negb inc_) >>= fun res => Ok (c_or_empty c res)
                   end
  end.
(* d.find_<key>(query) *)
Definition same_cell (x y : cell) : bool := (py_is y x || py_eq y x)%bool.
Definition c_find (c : ctable) (key : colname) (q : query) : res cell :=
  match aget key c with
  | None => Err EKey
  | Some _ => c_inc c q >>= fun items =>
      if Nat.eqb (tlen items) 0 then Err EValue
      else c_getcol items key >>= fun item =>
           match item with
           | [] => Err EIndex
           | x :: rest => if forallb (same_cell x) rest then Ok x else Err EValue
           end
  end.
Definition c_one_or_none (c : ctable) (q : query) : res (option record) :=
  c_inc c q >>= fun res =>
  if Nat.ltb 1 (tlen res) then Err EValue
  else if Nat.eqb (tlen res) 0 then Ok None else rmap Some (c_getrow res 0).

(* ------------------------------------------------------------------ spec on the list of records *)
Definition keys_ok (fs : list (colname * cond)) (cs : list colname) : bool := forallb (fun f => mem (fst f) cs) fs.
Definition sat_filters (fs : list (colname * cond)) (r : record) : bool := forallb (fun f => cond_check (snd f) (get_or_none (fst f) r)) fs.
(* the condition as a predicate on records; an error (missing column / argument) is an error of the whole call *)
Definition sats (q : query) (r : rtable) : res (list bool) :=
  match q with
  | QNone => Ok (map (fun _ => true) (recs r))
  | QFun f => mapM (fun rc => rmap truthy (eval_rowfn f rc)) (recs r)
  | QFilters fs => if keys_ok (dict_of fs) (cols r) then Ok (map (sat_filters (dict_of fs)) (recs r)) else Err EKey
  end.
Definition r_inc (r : rtable) (q : query) : res rtable :=
  sats q r >>= fun keep => Ok (mkR (cols r) (kept (combine (recs r) keep))).
Definition r_exc (r : rtable) (q : query) : res rtable :=
  match q, recs r with
  | QFilters (_ :: _), [] => Ok r           (* no rows: the filters are never looked at *)
  | QNone, _ => Ok r
  | QFilters [], _ => Ok r
  | _, _ => sats q r >>= fun keep => Ok (mkR (cols r) (kept (combine (recs r) (map negb keep))))
  end.
Definition r_find (r : rtable) (key : colname) (q : query) : res cell :=
  if mem key (cols r) then
    r_inc r q >>= fun items =>
    match map (get_or_none key) (recs items) with
    | [] => Err EValue
    | x :: rest => if forallb (same_cell x) rest then Ok x else Err EValue
    end
  else Err EKey.

(* one_or_none: None when nothing is selected, the row when exactly one is, ValueError otherwise *)
Definition r_one_or_none (r : rtable) (q : query) : res (option record) :=
  r_inc r q >>= fun t => match recs t with [] => Ok None | [x] => Ok (Some x) | _ => Err EValue end.
