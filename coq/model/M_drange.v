(* Model of pyg_base._drange.drange(t0, t1, bump) for explicit datetime endpoints.
   Datetimes are microsecond Z (M_cal); a period string is its token list (M_dates).
   Single non-business period strings are modelled as the dt_bump iteration (the
   repaired behaviour for negative counts; for positive counts the code calls
   dateutil.rrule, which the correspondence compares with this iteration). *)
From Coq Require Import ZArith List Bool.
From PB Require Import model.M_cal model.M_dates.
Import ListNotations.
Open Scope Z_scope.

Inductive res := Ok (l : list Z) | Raise | OutOfFuel.
Definition res_cons (t : Z) (r : res) : res := match r with Ok l => Ok (t :: l) | e => e end.

(* while t <= t1: res.append(t); t = f(t) *)
Fixpoint loop_up (f : Z -> option Z) (fuel : nat) (t t1 : Z) : res :=
  match fuel with
  | O => OutOfFuel
  | S k => if t <=? t1 then match f t with Some t' => res_cons t (loop_up f k t' t1) | None => Raise end
           else Ok []
  end.
Fixpoint loop_down (f : Z -> option Z) (fuel : nat) (t t1 : Z) : res :=
  match fuel with
  | O => OutOfFuel
  | S k => if t1 <=? t then match f t with Some t' => res_cons t (loop_down f k t' t1) | None => Raise end
           else Ok []
  end.

(* the guarded loop shared by the timedelta and period-string arms *)
Definition guarded_loop (f : Z -> option Z) (fuel : nat) (t0 t1 : Z) : res :=
  if t0 <? t1 then
    match f t0 with
    | Some t' => if t' <=? t0 then Raise else loop_up f fuel t0 t1
    | None => Raise
    end
  else if t1 <? t0 then
    match f t0 with
    | Some t' => if t0 <=? t' then Raise else loop_down f fuel t0 t1
    | None => Raise
    end
  else Ok [t0].

(* res[::k] *)
Fixpoint stride_from {A} (k : nat) (skip : nat) (l : list A) : list A :=
  match l with
  | [] => []
  | x :: l' => match skip with O => x :: stride_from k (pred k) l' | S s => stride_from k s l' end
  end.
Definition stride {A} (k : Z) (l : list A) : list A := if 1 <? k then stride_from (Z.to_nat k) 0 l else l.

(* (t1 - t0).days : floor division, as datetime.timedelta normalises *)
Definition tdays (t0 t1 : Z) : Z := (t1 - t0) / DAYUS.

Definition daily (fuel : nat) (lo hi : Z) : res := loop_up (fun t => Some (t + DAYUS)) fuel lo hi.

Definition drange_int (fuel : nat) (t0 t1 n : Z) : res :=
  if tdays t0 t1 * n <=? 0 then Raise else
  match daily fuel (Z.min t0 t1) (Z.max t0 t1) with
  | Ok l => Ok (stride (Z.abs n) (if n <? 0 then rev l else l))
  | e => e
  end.

Definition drange_b (fuel : nat) (t0 t1 n : Z) : res :=
  if tdays t0 t1 * n <? 0 then Raise else
  match daily fuel (Z.min t0 t1) (Z.max t0 t1) with
  | Ok l => let w := filter (fun t => weekday t <? 5) l in
            Ok (stride (Z.abs n) (if n <? 0 then rev w else w))
  | e => e
  end.

Inductive bump := BNone | BInt (n : Z) | BTd (us : Z) | BTok (toks : list (Z * unit_)).

Definition drange (fuel : nat) (t0 t1 : Z) (b : bump) : res :=
  if t0 =? t1 then Ok [t0] else
  match b with
  | BNone => drange_int fuel t0 t1 (if t0 <? t1 then 1 else -1)
  | BInt n => drange_int fuel t0 t1 n
  | BTd us => guarded_loop (fun t => Some (t + us)) fuel t0 t1
  | BTok [(n, UB)] => drange_b fuel t0 t1 n
  | BTok [(n, u)] =>
      let interval := match u with UQ => 3 * n | _ => n end in
      if (0 <? interval) && (tdays t0 t1 * interval <? 0) then Raise
      else guarded_loop (fun t => dt_bump t [(n, u)]) fuel t0 t1
  | BTok toks => guarded_loop (fun t => dt_bump t toks) fuel t0 t1
  end.

(* ---- specification: the list t0, f t0, f (f t0), ... while within the bound ---- *)
Inductive iter_up (f : Z -> option Z) (t1 : Z) : Z -> list Z -> Prop :=
  | iu_stop t : t1 < t -> iter_up f t1 t []
  | iu_step t t' l : t <= t1 -> f t = Some t' -> iter_up f t1 t' l -> iter_up f t1 t (t :: l).
Inductive iter_down (f : Z -> option Z) (t1 : Z) : Z -> list Z -> Prop :=
  | id_stop t : t < t1 -> iter_down f t1 t []
  | id_step t t' l : t1 <= t -> f t = Some t' -> iter_down f t1 t' l -> iter_down f t1 t (t :: l).
