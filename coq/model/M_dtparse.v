(* Token-level model of pyg_base._dates.dt for the spellings of property C04.
   Strings are modelled after tokenisation: the numeric fields of 'a<sep>b<sep>yyyy',
   of the ISO / yyyymmdd / month-name formats.  dateutil's field resolution is the
   ordinary definition du_resolve below (validated exhaustively by the correspondence). *)
From Coq Require Import ZArith List Bool.
From PB Require Import model.M_cal model.M_dates.
Import ListNotations.
Open Scope Z_scope.

(* dateutil.parser.parse on 'a<sep>b<sep>y': month first unless a > 12; ParserError (a ValueError)
   when the chosen reading is not a calendar date *)
Definition du_resolve (a b y : Z) : option (Z * Z * Z) :=
  let '(m, d) := if 12 <? a then (b, a) else (a, b) in
  if valid_ymd y m d && (y <=? 9999) then Some (y, m, d) else None.

Definition date_us (p : Z * Z * Z) : Z := let '(y, m, d) := p in us_of_ord (ord_of_ymd y m d).

(* uk2dt on an ambiguous-looking string: swap when dateutil's day < 13, else insist the
   first field is the day (repaired behaviour: the first field is read whatever the separator) *)
Definition uk_model (a b y : Z) : option Z :=
  match du_resolve a b y with
  | None => None
  | Some (ry, rm, rd) =>
      if rd <? 13 then ymd_us ry rd rm
      else if a =? rd then Some (date_us (ry, rm, rd)) else None
  end.
Definition us_model (a b y : Z) : option Z :=
  match du_resolve a b y with
  | None => None
  | Some (ry, rm, rd) => if rm =? a then Some (date_us (ry, rm, rd)) else None
  end.

(* num2dt for n > 1500 (the offset-from-today arm is outside the property) *)
Definition num_model (n : Z) : option Z :=
  if n <=? 1500 then None
  else if n <=? 3000 then mk_datetime n 1 1
  else if n <? 300000 then Some (us_of_ord (n + 693594))
  else if n <? 1095000 then Some (us_of_ord n)
  else if (10000101 <? n) && (n <? 30001231) then ymd_us (n / 10000) ((n mod 10000) / 100) (n mod 100)
  else Some ((719163 * 86400 + n) * 1000000).

Inductive spelling :=
  | SpTuple (y m d : Z)                       (* dt(y, m, d), any integers *)
  | SpTupleHMS (y m d h mi s : Z)             (* dt(y, m, d, h, mi, s) *)
  | SpYM (y m : Z)                            (* dt(y, m) *)
  | SpNum (n : Z)                             (* dt(n): yyyymmdd, ordinal, excel, year *)
  | SpDMY (us : bool) (a b y : Z)             (* dt('a<sep>b<sep>y', dialect) *)
  | SpFields (y m d tod : Z).                 (* ISO / 'yyyymmdd' / month-name strings, date, Timestamp,
                                                 datetime64: formats whose parse yields the fields verbatim *)

Definition dt_model (s : spelling) : option Z :=
  match s with
  | SpTuple y m d => ymd_us y m d
  | SpTupleHMS y m d h mi sec =>
      match ymd_us y m d with Some t => Some (t + 3600000000 * h + 60000000 * mi + 1000000 * sec) | None => None end
  | SpYM y m => let '(y', m') := ym y m in mk_datetime y' m' 1
  | SpNum n => num_model n
  | SpDMY false a b y => uk_model a b y
  | SpDMY true a b y => us_model a b y
  | SpFields y m d tod =>
      match mk_datetime y m d with Some t => if (0 <=? tod) && (tod <? DAYUS) then Some (t + tod) else None | None => None end
  end.

(* ymd(): drops the time of day *)
Definition ymd_model (t : Z) : Z := us_of_ord (ord_of_us t).
(* dt2str(t) with fmt=None: 'yyyymmdd' at midnight, ISO otherwise; both are SpFields spellings *)
Definition dt2str_model (t : Z) : spelling :=
  let '(y, m, d) := ymd_of_ord (ord_of_us t) in SpFields y m d (tod_of_us t).
